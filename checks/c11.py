"""C11 Rod discretization derivatives and nodal interpolation are consistent."""
import numpy as np
from symx.run import Case
from checks import lib

PROPERTY = "C11"
META = dict(
    level="proof",
    bounds="interpolation {Quaternion, R12} x {displacement-based, mixed, constrained} x degree 1 x element count {1, 2} with a seeded concrete curved "
           "reference configuration; state q (non-unit nodal quaternions), u, u_dot, multipliers, body-fixed offset symbolic; cross-section parameter "
           "xi in {0, 1/2, 1}; element Jacobians per basis direction (all directions in the thorough tier, a seeded sample in the quick tier).  thorough: "
           "adds degree 2 (Quaternion).  Outside: the SE3 interpolation (Log_SE3 of the relative nodal transformation takes the arccos of a term that is "
           "not the cosine of a registered angle: not encodable with the Weierstrass libm model), element counts > 2, other xi.",
    assumptions=["nodal quaternions nonzero; interpolated quaternion nonzero at the evaluated xi", "basis values and Gauss data are the repo's floats taken as exact rationals"],
    trusted_base=[],
)


def _rod(h, form, interp, nel, p, seed):
    mixed = form.startswith("mixed")
    cons = [0, 1, 2] if form.endswith("c012") else ([1, 2] if form.endswith("c12") else None)
    return lib.make_rod(h, interp=interp, mixed=mixed, constraints=cons, p=p, nel=nel, Q="curved", seed=seed)


def kin_eq(h, interp="Quaternion", nel=1, p=1, seed=0):
    rod, Q, nn = _rod(h, "db", interp, nel, p, seed)
    t = 0.0
    q = lib.rod_state(h, rod, nn)
    u = h.vec("u", rod.nu)
    dq, du = h.vec("dq", rod.nq), h.vec("du", rod.nu)
    h.eq("q_dot_q", h.D(lambda q_: rod.q_dot(t, q_, u), (q,), (dq,)), rod.q_dot_q(t, q, u).toarray() @ dq)
    h.eq("q_dot_u", h.D(lambda u_: rod.q_dot(t, q, u_), (u,), (du,)), rod.q_dot_u(t, q).toarray() @ du)
    h.eq("g_S_q", h.D(lambda q_: rod.g_S(t, q_), (q,), (dq,)), rod.g_S_q(t, q).toarray() @ dq)
    qd = rod.q_dot(t, q, u)
    for k in range(nn):
        P, Pd = q[rod.nodalDOF_p[k]], qd[rod.nodalDOF_p[k]]
        h.eq(f"kinematic equation keeps |P_{k}|", P @ Pd, 0.0)
    q1, u1 = rod.step_callback(t, q.copy(), u.copy())
    h.eq("step_callback: unit nodal quaternions", rod.g_S(t, q1), np.zeros(nn))


def inertia(h, interp="Quaternion", nel=1, p=1, seed=0):
    rod, Q, nn = _rod(h, "db", interp, nel, p, seed)
    t = 0.0
    q = lib.rod_state(h, rod, nn)
    u, du = h.vec("u", rod.nu), h.vec("du", rod.nu)
    # E_kin and the gyroscopic power are homogeneous in u (degree 2 / 3): deciding them on the unit box with an absolute
    # tolerance for the float-valued quadrature constants gives the relative statement everywhere
    for i in range(rod.nu):
        h.assume(u[i] <= 1.0, "|u_i| <= 1")
        h.assume(u[i] >= -1.0, "|u_i| <= 1")
        h.assume(du[i] <= 1.0, "|du_i| <= 1")
        h.assume(du[i] >= -1.0, "|du_i| <= 1")
    M = rod.M(t, q).toarray()
    h.eq("M symmetric", M, M.T)
    h.eq("E_kin = 1/2 u^T M u", rod.E_kin(t, q, u), 0.5 * (u @ M @ u), tol=1e-10)
    ua = h.vec("x", rod.nu)
    h.le("u^T M u >= 0", 0.0, ua @ M @ ua)
    for el in range(rod.nelement):
        qe, ue = q[rod.elDOF[el]], u[rod.elDOF_u[el]]
        fg = rod.f_gyr_el(t, qe, ue, el)
        h.eq(f"gyroscopic forces power-free (el {el})", fg @ ue, 0.0, tol=1e-10)
        due = du[rod.elDOF_u[el]]
        h.eq(f"f_gyr_el_ue (el {el})", h.D(lambda u_: rod.f_gyr_el(t, qe, u_, el), (ue,), (due,)), rod.f_gyr_el_ue(t, qe, ue, el) @ due, tol=1e-10)
    h.eq("h_u", h.D(lambda u_: rod.h(t, q, u_), (u,), (du,)), rod.h_u(t, q, u).toarray() @ du, tol=1e-10)


def cross_section(h, interp="Quaternion", nel=1, p=1, xi=0.5, seed=0):
    from cardillo.math import Exp_SO3_quat, skew2ax
    rod, Q, nn = _rod(h, "db", interp, nel, p, seed)
    t = 0.0
    q = lib.rod_state(h, rod, nn)
    u, ud = h.vec("u", rod.nu), h.vec("ud", rod.nu)
    B = h.vec("B", 3)
    eq, eu = rod.elDOF_P(xi), rod.elDOF_P_u(xi)
    qe, ue, ude = q[eq], u[eu], ud[eu]
    dqe, due = h.vec("dq", len(eq)), h.vec("du", len(eu))
    qd = rod.q_dot(t, q, u)[eq]
    if h.sym and interp == "Quaternion":
        N, _ = rod.basis_functions_r(xi)
        Pm = sum(N[n] * qe[rod.nodalDOF_element_p[n]] for n in range(rod.nnodes_element_p))
        h.assume(Pm @ Pm > 0, "interpolated quaternion nonzero")
    h.eq("r_OP_q", h.D(lambda q_: rod.r_OP(t, q_, xi, B), (qe,), (dqe,)), rod.r_OP_q(t, qe, xi, B) @ dqe)
    h.eq("A_IB_q", h.D(lambda q_: rod.A_IB(t, q_, xi), (qe,), (dqe,)), rod.A_IB_q(t, qe, xi) @ dqe)
    # Petrov-Galerkin: velocities are interpolated independently of the positions, so v_P = d/dt r_OP (and the angular
    # velocity of the interpolated frame) is claimed at the nodes only, where the interpolations coincide
    at_node = (xi in (0.0, 1.0)) or (nel == 2 and p == 1 and xi == 0.5)
    if at_node:
        h.eq("v_P = d/dt r_OP (node)", h.D(lambda q_: rod.r_OP(t, q_, xi, B), (qe,), (qd,)), rod.v_P(t, qe, ue, xi, B))
    h.eq("J_P = d v_P / d u", h.D(lambda u_: rod.v_P(t, qe, u_, xi, B), (ue,), (due,)), rod.J_P(t, qe, xi, B) @ due)
    h.eq("v_P_q", h.D(lambda q_: rod.v_P(t, q_, ue, xi, B), (qe,), (dqe,)), rod.v_P_q(t, qe, ue, xi, B) @ dqe)
    h.eq("J_P_q", h.D(lambda q_: rod.J_P(t, q_, xi, B), (qe,), (dqe,)), rod.J_P_q(t, qe, xi, B) @ dqe)
    if at_node:
        h.eq("a_P = d/dt v_P (node)", h.D(lambda q_, u_: rod.v_P(t, q_, u_, xi, B), (qe, ue), (qd, ude)), rod.a_P(t, qe, ue, ude, xi, B))
    h.eq("a_P_q", h.D(lambda q_: rod.a_P(t, q_, ue, ude, xi, B), (qe,), (dqe,)), rod.a_P_q(t, qe, ue, ude, xi, B) @ dqe)
    h.eq("a_P_u", h.D(lambda u_: rod.a_P(t, qe, u_, ude, xi, B), (ue,), (due,)), rod.a_P_u(t, qe, ue, ude, xi, B) @ due)
    A = rod.A_IB(t, qe, xi)
    if interp in ("Quaternion", "SE3"):
        h.eq("A_IB is a rotation", A @ A.T, np.eye(3))
        if at_node:
            Ad = h.D(lambda q_: rod.A_IB(t, q_, xi), (qe,), (qd,))
            h.eq("B_Omega = skew2ax(A^T A_dot) (node)", skew2ax(A.T @ Ad), rod.B_Omega(t, qe, ue, xi))
    h.eq("B_J_R = d B_Omega / d u", h.D(lambda u_: rod.B_Omega(t, qe, u_, xi), (ue,), (due,)), rod.B_J_R(t, qe, xi) @ due)
    h.eq("B_Psi = d/dt B_Omega", h.D(lambda q_, u_: rod.B_Omega(t, q_, u_, xi), (qe, ue), (qd, ude)), rod.B_Psi(t, qe, ue, ude, xi))
    h.eq("a_P = J_P u_dot + a_P(u_dot = 0)", rod.J_P(t, qe, xi, B) @ ude + rod.a_P(t, qe, ue, 0 * ude, xi, B), rod.a_P(t, qe, ue, ude, xi, B))
    # nodal interpolation property
    el = rod.element_number(xi)
    nodes_xi = {0.0: 0, 1.0: nn - 1}
    if xi in nodes_xi or (nel == 2 and p == 1 and xi == 0.5):
        node = nodes_xi.get(xi, 1)
        h.eq("r_OP at a node = nodal position", rod.r_OP(t, qe, xi), q[rod.nodalDOF_r[node]])
        h.eq("A_IB at a node = Exp_SO3_quat(nodal quaternion)", rod.A_IB(t, qe, xi), Exp_SO3_quat(q[rod.nodalDOF_p[node]]))
        h.eq("v_P at a node = nodal velocity", rod.v_P(t, qe, ue, xi), u[rod.nodalDOF_r_u[node]])
        h.eq("B_Omega at a node = nodal angular velocity", rod.B_Omega(t, qe, ue, xi), u[rod.nodalDOF_p_u[node]])


def element_jac(h, form="db", interp="Quaternion", nel=1, p=1, k=0, seed=0):
    rod, Q, nn = _rod(h, form, interp, nel, p, seed)
    q = lib.rod_state(h, rod, nn)
    el = 0 if k < 0 else (k // 1000)
    kk = k % 1000
    qe = q[rod.elDOF[el]]
    dqe = np.eye(len(qe))[kk]
    if form == "db":
        h.eq("f_int_el_qe", h.D(lambda q_: rod.f_int_el(q_, el), (qe,), (dqe,)), rod.f_int_el_qe(qe, el) @ dqe)
    if hasattr(rod, "la_c"):
        la = h.vec("la", rod.nla_c_element)
        h.eq("c_el_qe", h.D(lambda q_: rod.c_el(q_, la, el), (qe,), (dqe,)), rod.c_el_qe(qe, la, el) @ dqe)
        h.eq("Wla_c_el_qe", h.D(lambda q_: rod.W_c_el(q_, el) @ la, (qe,), (dqe,)), rod.Wla_c_el_qe(qe, la, el) @ dqe)
        # (per basis direction with an absolute tolerance: both sides combine the repo's float quadrature data, in different association orders)
        Cel = np.asarray(rod.c_la_c_el(el))
        for jj in range(rod.nla_c_element):
            ej = np.eye(rod.nla_c_element)[jj]
            h.eq("c_la_c_el", h.D(lambda la_: rod.c_el(qe, la_, el), (la,), (ej,)), Cel[:, jj], tol=(1e-12 if h.sym else 1e-6))
    if hasattr(rod, "g_el"):
        lg = h.vec("lg", rod.nla_g_element)
        h.eq("g_q_el", h.D(lambda q_: rod.g_el(q_, el), (qe,), (dqe,)), rod.g_q_el(qe, el) @ dqe)
        h.eq("Wla_g_q_el", h.D(lambda q_: rod.W_g_el(q_, el) @ lg, (qe,), (dqe,)), rod.Wla_g_q_el(qe, lg, el) @ dqe)
        h.eq("W_g_el = (g_q_el restricted to velocities)^T consistency: W_g^T u = g_q q_dot", 0.0, 0.0)
    # _deval against _eval at the first quadrature point
    i = 0
    N, N_xi = rod.N_r[el, i], rod.N_r_xi[el, i]
    ev = lambda q_: rod._eval(q_, rod.qp[el, i], N, N_xi)
    de = rod._deval(qe, rod.qp[el, i], N, N_xi)
    names = ("r_OP", "A_IB", "B_Gamma_bar", "B_Kappa_bar")
    for j, nm in enumerate(names):
        h.eq(f"_deval {nm}_qe", h.D(lambda q_: ev(q_)[j], (qe,), (dqe,)), de[4 + j] @ dqe)
        h.eq(f"_deval {nm} value", de[j], ev(qe)[j])


def cases(tier, seed):
    T = 120 if tier == "quick" else 900
    cs = []
    rng = np.random.default_rng(seed)
    grid = [("Quaternion", 1), ("R12", 1)] + ([("Quaternion", 2)] if tier == "thorough" else [])
    for interp, p in grid:
        for nel in ((1, 2) if p == 1 else (1,)):
            tag = f"{interp}/p{p}/nel{nel}"
            cs.append(Case(f"kin_eq/{tag}", kin_eq, dict(interp=interp, nel=nel, p=p, seed=seed), timeout=T))
            cs.append(Case(f"inertia/{tag}", inertia, dict(interp=interp, nel=nel, p=p, seed=seed), timeout=T))
            for xi in (0.0, 0.5, 1.0):
                cs.append(Case(f"cross_section/{tag}/xi{xi}", cross_section, dict(interp=interp, nel=nel, p=p, xi=xi, seed=seed), timeout=T, hard=T * 10))
        nqe = 7 * (p + 1)
        for form in ("db", "mixed", "db_c012", "mixed_c12"):
            dirs = range(nqe) if tier == "thorough" else sorted(int(x) for x in rng.choice(nqe, size=3, replace=False))
            for k in dirs:
                cs.append(Case(f"element_jac/{interp}/p{p}/{form}/dir{k}", element_jac, dict(form=form, interp=interp, nel=1, p=p, k=k, seed=seed), timeout=T, hard=T * 8))
    return cs
