"""C05 Joint constraints obey the kinematic hierarchy."""
import numpy as np
from symx.run import Case
from checks import lib

PROPERTY = "C05"
META = dict(
    level="proof",
    bounds="grid: joint type in {Spherical, RigidConnection, Revolute, Prismatic, Cylindrical, Planarizer, FixedDistance} x axis in {0,1,2} x "
           "pairings {RB-RB, moving Frame-RB, RB-moving Frame, RB-PM / PM-RB (Spherical, FixedDistance)} with seeded concrete joint placements "
           "(r_OJ0, A_IJ0, initial poses); inside a configuration the state (t, q, u, u_dot, lambda) and the direction dq are symbolic: all reals, "
           "non-unit quaternions and states violating the joint included.  'satisfied where defined' with symbolic initial poses.  quick: one axis "
           "per joint type; thorough: all axes and pairings.  Rod cross-section pairings: end node (xi = 1 / 0) of a one-element quaternion (thorough: R12) rod with a seeded curved reference.  Outside: n-point interaction, joints at interior xi of a rod element, SE3 rods.",
    assumptions=["quaternion parts nonzero", "frame motion family of checks.lib.Motion (free position/velocity/acceleration; orientation A0 Rz(theta(t)) in the quick tier, A0 Rx(alpha(t)) Rz(theta(t)) in the thorough tier)",
                 "concrete joint placements are seeded floats (exact rationals in the encoding)"],
    trusted_base=[],
)

JOINTS = ("Spherical", "RigidConnection", "Revolute", "Prismatic", "Cylindrical", "Planarizer", "FixedDistance")


def build(h, joint, pairing, axis, seed, two_axes=True):
    import cardillo.constraints as C
    from cardillo import System
    from cardillo.math import Exp_SO3_quat
    rng = np.random.default_rng(1000 * seed + 17)
    s1, s2 = pairing.split("-")

    def mk(kind, name):
        if kind == "RB":
            return lib.make_rb(rng, name)
        if kind == "PM":
            return lib.make_pm(rng, name)
        if kind == "F":
            return lib.make_frame(h, rng, name, moving=True, two_axes=two_axes)[0]
        if kind == "F0":
            return lib.make_frame(h, rng, name, moving=False)[0]
        if kind in ("ROD", "RODR12"):
            # real Cosserat rod (one linear element, seeded curved reference); the joint sits on the end cross-section (a node:
            # the Petrov-Galerkin rods interpolate velocities independently inside an element, see C11)
            rod = lib.make_rod(h, interp="Quaternion" if kind == "ROD" else "R12", p=1, nel=1, Q="curved", seed=seed, assemble=False)[0]
            rod.name = name
            return rod
        raise ValueError(kind)
    a, b = mk(s1, "a"), mk(s2, "b")
    xi = dict(xi1=1.0) if s1.startswith("ROD") else {}
    if s2.startswith("ROD"):
        xi["xi2"] = 0.0
    r_OJ0 = np.round(rng.normal(size=3) * 8) / 8
    A_IJ0 = Exp_SO3_quat(lib.rnd_unit_quat(rng))
    J = getattr(C, joint)
    if joint == "FixedDistance":
        j = J(a, b, B1_r_P1J1=np.round(rng.normal(size=3) * 8) / 8 if s1 != "PM" else np.zeros(3),
              B2_r_P2J2=np.round(rng.normal(size=3) * 8) / 8 if s2 != "PM" else np.zeros(3), **xi)
    elif joint == "Spherical":
        j = J(a, b, r_OJ0=r_OJ0, **xi)
    elif joint == "RigidConnection":
        j = J(a, b, **xi)
    else:
        j = J(a, b, axis=axis, r_OJ0=r_OJ0, A_IJ0=A_IJ0, **xi)
    sysm = System()
    sysm.add(a, b, j)
    try:
        lib.assemble(sysm)
    except ValueError as e:
        # FixedDistance rejects coincident points: that path ends here (documented behaviour)
        from symx.harness import Skip
        raise Skip("configuration rejected by assemble: %s" % e)
    return sysm, j


def joint_case(h, joint="Revolute", pairing="RB-RB", axis=0, levels=("vel",), seed=0, two_axes=True):
    sysm, j = build(h, joint, pairing, axis, seed, two_axes)
    t, q, u, ud = lib.sys_state(h, sysm)
    lib.hierarchy(h, j, sysm, t, q, u, ud, levels)


def defined_case(h, joint="Revolute", pairing="RB-RB", axis=0, seed=0):
    """a joint is satisfied in the configuration in which it was defined: symbolic initial poses"""
    import cardillo.constraints as C
    from cardillo import System
    from cardillo.discrete import RigidBody, PointMass
    from cardillo.math import Exp_SO3_quat
    s1, s2 = pairing.split("-")

    def mk(kind, name):
        if kind == "RB":
            q0 = np.concatenate([h.vec(name + "_r", 3), h.quat(name + "_P")])
            return RigidBody(1.5, np.diag([1.0, 2.0, 3.0]), q0=q0, name=name)
        if kind == "PM":
            return PointMass(1.0, q0=h.vec(name + "_r", 3), name=name)
        return lib.make_frame(h, np.random.default_rng(seed), name, moving=True)[0]
    a, b = mk(s1, "a"), mk(s2, "b")
    r_OJ0 = h.vec("rJ", 3)
    # a point mass carries the joint point itself: the joint is defined at the point mass
    if s2 == "PM":
        r_OJ0 = b.q0
    if s1 == "PM":
        r_OJ0 = a.q0
    A_IJ0 = Exp_SO3_quat(h.quat("PJ"))
    J = getattr(C, joint)
    if joint == "FixedDistance":
        j = J(a, b, B1_r_P1J1=h.vec("B1", 3) if s1 != "PM" else np.zeros(3), B2_r_P2J2=h.vec("B2", 3) if s2 != "PM" else np.zeros(3))
    elif joint == "Spherical":
        j = J(a, b, r_OJ0=r_OJ0)
    elif joint == "RigidConnection":
        j = J(a, b)
    else:
        j = J(a, b, axis=axis, r_OJ0=r_OJ0, A_IJ0=A_IJ0)
    sysm = System()
    sysm.add(a, b, j)
    try:
        lib.assemble(sysm)
    except ValueError as e:
        from symx.harness import Skip
        raise Skip("configuration rejected by assemble: %s" % e)
    g0 = np.atleast_1d(j.g(sysm.t0, sysm.q0[j.qDOF]))
    h.eq("g(t0, q0) = 0 where the joint was defined", g0, np.zeros(len(g0)))
    # also at the un-normalised initial coordinates the user passed
    q_raw = np.concatenate([c.q0 for c in (a, b) if hasattr(c, "nq") and c.nq > 0] or [np.zeros(0)])
    g1 = np.atleast_1d(j.g(sysm.t0, q_raw[j.qDOF] if len(q_raw) else q_raw))
    h.eq("g(t0, q0 as passed) = 0", g1, np.zeros(len(g1)))


def pairings_for(joint, tier):
    # rod cross-section pairings: quaternion rod end node against a rigid body (quick: Spherical, FixedDistance, Revolute without the acceleration level), R12 rod and
    # rigid body -> rod start node in the thorough tier
    if joint in ("Spherical", "FixedDistance"):
        return ["RB-RB", "RB-PM", "F-RB", "ROD-RB"] if tier == "quick" else ["RB-RB", "RB-PM", "PM-RB", "PM-PM", "F-RB", "RB-F", "F-PM", "ROD-RB", "RB-ROD", "RODR12-RB"]
    if tier == "quick":
        return ["RB-RB"] + (["F-RB"] if joint in ("Revolute", "Prismatic") else []) + (["ROD-RB"] if joint == "Revolute" else [])
    return ["RB-RB", "F-RB", "RB-F", "ROD-RB", "RB-ROD", "RODR12-RB"]


LEVELS = [("vel",), ("acc",), ("g_q",), ("g_dot_q",), ("Wla_g_q",)]


def cases(tier, seed):
    T = 300 if tier == "quick" else 900
    cs = []
    for ji, joint in enumerate(JOINTS):
        axes = (0,) if joint in ("Spherical", "RigidConnection", "FixedDistance") else (((ji + seed) % 3,) if tier == "quick" else (0, 1, 2))
        for pairing in pairings_for(joint, tier):
            for axis in axes:
                for lv in LEVELS:
                    if tier == "quick" and "ROD" in pairing and lv == ("acc",) and joint not in ("Spherical", "FixedDistance"):
                        continue    # orientation rows of g_ddot on a rod cross-section need more than the quick budget: thorough tier
                    cs.append(Case(f"{joint}/{pairing}/ax{axis}/{lv[0]}", joint_case,
                                   dict(joint=joint, pairing=pairing, axis=axis, levels=lv, seed=seed, two_axes=(tier == "thorough")), timeout=T, hard=T * 10))
        dpair = ["RB-RB"] + (["RB-PM"] if joint in ("Spherical", "FixedDistance") else []) + (["F-RB"] if tier == "thorough" else [])
        for pairing in dpair:
            cs.append(Case(f"{joint}/{pairing}/defined", defined_case, dict(joint=joint, pairing=pairing, axis=axes[0], seed=seed), timeout=T, hard=T * 10))
    return cs
