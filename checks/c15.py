"""C15 Sparse COO assembly accumulates exactly."""
import itertools
import numpy as np
from symx.run import Case

PROPERTY = "C15"
META = dict(
    level="model_checking",
    bounds="all write sequences of length <= 3 (quick) / <= 4 (thorough) over a menu of 13 write operations on a 3x3 container, plus every history of length <= 2 that involves a slice key (6 further slice forms: open-ended, negative, int row with slice columns) on 3x3, 2x4 and 4x2 containers (dense 2-D blocks by index "
           "arrays / slices / ints, 1-D row, scalar, repeated indices, scipy-sparse value, nested CooMatrix with its own writes, None, and three kinds of "
           "inconsistent block shapes), with SYMBOLIC block values; after every write all conversions (toarray, tocoo, tocsr, tocsc, asformat) are compared "
           "with the dense accumulation.  The property's 'length 0..40' is cut: each write is independent of the container's content (argued, not proved).",
    assumptions=["array('d') and scipy's COO->format conversion are stubbed by their documented law: A[i,j] = sum of the data entries with that (row, col)",
                 "index values are concrete (numpy fancy indexing needs concrete indices); block values are symbolic reals"],
    trusted_base=["SymMat stub for scipy sparse arrays (duplicates summed)"],
)

SHAPES = [(3, 3), (2, 4), (4, 2)]

MENU = ["dense22", "slice22", "row13", "scalar", "dup_rows", "full_slice", "sparse22", "nested22", "none", "bad_shape_23", "bad_col_vec", "bad_nested", "bad_same_size"]
MENU_SLICES = ["slice22", "full_slice", "open_slices", "neg_slices", "int_row_slice_cols", "dense22"]


def _apply(h, coo, ref, op, k):
    from cardillo.utility.coo_matrix import CooMatrix
    M, N = coo.shape
    v = lambda name, *sh: (h.mat(f"v{k}{name}", *sh) if len(sh) == 2 else (h.vec(f"v{k}{name}", sh[0]) if sh else h.real(f"v{k}{name}")))
    bad = False
    if op == "dense22":
        r, c = np.array([0, M - 1]), np.array([1, N - 1])
        val = v("a", 2, 2)
        key = (r, c)
        blocks = [(r, c, val)]
    elif op == "slice22":
        val = v("a", 2, 2)
        key = (slice(0, 2), slice(N - 2, N))
        blocks = [(np.array([0, 1]), np.array([N - 2, N - 1]), val)]
    elif op == "open_slices":
        val = v("a", M - 1, N - 1)
        key = (slice(1, None), slice(None, N - 1))
        blocks = [(np.arange(1, M), np.arange(0, N - 1), val)]
    elif op == "neg_slices":
        val = v("a", 2, 2)
        key = (slice(-2, None), slice(-2, None))
        blocks = [(np.array([M - 2, M - 1]), np.array([N - 2, N - 1]), val)]
    elif op == "int_row_slice_cols":
        val = v("a", N)
        key = (M - 1, slice(None))
        blocks = [(np.array([M - 1]), np.arange(N), val.reshape(1, N))]
    elif op == "row13":
        val = v("a", N)
        key = (1, np.arange(N))
        blocks = [(np.array([1]), np.arange(N), val.reshape(1, N))]
    elif op == "scalar":
        val = v("a")
        key = (M - 1, 0)
        blocks = [(np.array([M - 1]), np.array([0]), h.arr([[val]]))]
    elif op == "dup_rows":
        r, c = np.array([0, 0]), np.array([1, N - 1])
        val = v("a", 2, 2)
        key = (r, c)
        blocks = [(r, c, val)]
    elif op == "full_slice":
        val = v("a", M, N)
        key = (slice(None), slice(None))
        blocks = [(np.arange(M), np.arange(N), val)]
    elif op == "sparse22":
        r, c = np.array([1, M - 1]), np.array([0, 1])
        dense = v("a", 2, 2)
        dense[0, 1] = 0.0
        val = h.sparse(dense)
        key = (r, c)
        blocks = [(r, c, dense)]
    elif op == "nested22":
        r, c = np.array([0, 1]), np.array([0, N - 1])
        inner = CooMatrix((2, 2))
        a, b = v("a", 2, 2), v("b", 1, 2)
        inner[np.array([0, 1]), np.array([0, 1])] = a
        inner[np.array([1]), np.array([0, 1])] = b
        dense = a.copy()
        dense[1, :] = dense[1, :] + b[0]
        val = inner
        key = (r, c)
        blocks = [(r, c, dense)]
    elif op == "none":
        val, key, blocks = None, (np.array([0, 1]), np.array([0, 1])), []
    elif op == "bad_shape_23":
        val, key, blocks, bad = v("a", 2, 3), (np.array([0, 1]), np.array([0, 1])), [], True
    elif op == "bad_same_size":
        # inconsistent shape with the RIGHT number of entries: a 1x4 row for a 2x2 index set
        val, key, blocks, bad = v("a", 1, 4), (np.array([0, 1]), np.array([0, 1])), [], True
    elif op == "bad_col_vec":
        val, key, blocks, bad = v("a", M), (np.arange(M), 1), [], True
    elif op == "bad_nested":
        inner = CooMatrix((2, 3))
        inner[np.array([0]), np.array([0])] = v("a", 1, 1)
        val, key, blocks, bad = inner, (np.array([0, 1]), np.array([0, 1])), [], True
    else:
        raise ValueError(op)
    raised = False
    try:
        coo[key] = val
    except AssertionError:
        raised = True
    h.holds(f"write {k} ({op}): inconsistent block shape rejected iff inconsistent", raised == bad)
    if not raised:
        for (r, c, blk) in blocks:
            for i, ri in enumerate(r):
                for j, cj in enumerate(c):
                    ref[ri, cj] = ref[ri, cj] + blk[i, j]


def history(h, ops=(), shape=(3, 3)):
    from cardillo.utility.coo_matrix import CooMatrix
    M, N = shape
    coo = CooMatrix((M, N))
    ref = np.zeros((M, N), dtype=object if h.sym else float)
    h.eq("empty container converts to the zero matrix", np.asarray(coo.toarray()), ref)
    for k, op in enumerate(ops):
        _apply(h, coo, ref, op, k)
        h.eq(f"after write {k}: toarray = dense accumulation", np.asarray(coo.toarray()), ref)
    for fmt in ("tocoo", "tocsr", "tocsc"):
        h.eq(f"{fmt} = dense accumulation", np.asarray(getattr(coo, fmt)().toarray()), ref)
    for fmt in ("csr", "csc", "coo", "array"):
        A = coo.asformat(fmt)
        h.eq(f"asformat({fmt}) = dense accumulation", np.asarray(A if fmt == "array" else A.toarray()), ref)
    h.holds("shape preserved", tuple(coo.shape) == (M, N))
    try:
        coo.asformat("nonsense")
        h.holds("unknown format rejected", False)
    except ValueError:
        h.holds("unknown format rejected", True)


def constructor(h):
    from cardillo.utility.coo_matrix import CooMatrix
    for shape, ok in (((2, 3), True), ([2, 3], True), ((0, 0), True), ((2,), False), ((-1, 2), False), ("ab", False), (5, False)):
        try:
            CooMatrix(shape)
            good = True
        except (ValueError, TypeError):
            good = False
        h.holds(f"shape {shape!r} accepted iff valid", good == ok)


def cases(tier, seed):
    cs = [Case("constructor", constructor, {}, sentinel=False)]
    L = 3 if tier == "quick" else 4
    hist = [()]
    for n in range(1, L + 1):
        if n <= 2 or tier == "thorough" or n == 3:
            hist += list(itertools.product(MENU, repeat=n))
    if tier == "quick":
        # all histories up to length 2, and a seeded third of the length-3 histories
        rng = np.random.default_rng(seed)
        l3 = [hh for hh in hist if len(hh) == 3]
        keep = set(int(i) for i in rng.choice(len(l3), size=len(l3) // 3, replace=False))
        hist = [hh for hh in hist if len(hh) < 3] + [hh for i, hh in enumerate(l3) if i in keep]
    hist = [((3, 3), hh) for hh in hist]
    # non-square containers: every history of length <= 2 over the full menu plus the slice-key menu
    for shp in SHAPES[1:]:
        menu = MENU + [m for m in MENU_SLICES if m not in MENU]
        hist += [(shp, ())] + [(shp, hh) for n in (1, 2) for hh in itertools.product(menu, repeat=n) if n == 1 or set(hh) & set(MENU_SLICES)]
    hist += [((3, 3), hh) for n in (1, 2) for hh in itertools.product(MENU_SLICES, repeat=n) if set(hh) - set(MENU)]
    # group histories into batches to amortise process start-up
    B = 40
    for b in range(0, len(hist), B):
        chunk = hist[b:b + B]
        cs.append(Case(f"histories/{b // B:03d}", batch, dict(chunk=[(list(shp), list(c)) for shp, c in chunk]), timeout=30, sentinel=False, hard=900))
    return cs


def batch(h, chunk=()):
    for shp, ops in chunk:
        sub = _Prefix(h, f"{shp[0]}x{shp[1]}:" + ("/".join(ops) or "empty"))
        history(sub, tuple(ops), tuple(shp))


class _Prefix:
    """forwards to the harness with clause names prefixed by the history (and variable names made unique)"""

    def __init__(self, h, tag):
        self._h, self._tag = h, tag
        self.sym = h.sym
        _Prefix.n = getattr(_Prefix, "n", 0) + 1
        self._u = f"h{abs(hash(tag)) % 100000}_"

    def __getattr__(self, k):
        return getattr(self._h, k)

    def eq(self, name, *a, **k):
        return self._h.eq(f"[{self._tag}] {name}", *a, **k)

    def holds(self, name, *a, **k):
        return self._h.holds(f"[{self._tag}] {name}", *a, **k)

    def mat(self, name, m, n):
        return self._h.mat(self._u + name, m, n)

    def vec(self, name, n):
        return self._h.vec(self._u + name, n)

    def real(self, name):
        return self._h.real(self._u + name)


def coverage_extra(cases, results):
    hist = [tuple(ops) for c in cases if c.id.startswith("histories/") for _, ops in c.params["chunk"]]
    return dict(states=sum(len(x) + 1 for x in hist), transitions=sum(len(x) for x in hist), histories=len(hist),
                exhaustive=False, explanation="states = container states compared with the dense accumulation (one per write, plus the empty container); "
                "transitions = writes executed through the real __setitem__; complete for length <= 2, a seeded third of length 3 in the quick tier",
                samples=[dict(history=list(hist[len(hist) // 2]), compared="toarray/tocoo/tocsr/tocsc/asformat vs dense accumulation, symbolic block values")])
