"""C22 Nonlinear and fixed-point helpers honour their convergence contract."""
import numpy as np
from symx.run import Case

PROPERTY = "C22"
META = dict(
    level="model_checking",
    bounds="fsolve: user function = ARBITRARY map (every call returns a vector of fresh symbols), dimension 1..2, newton_max_iter <= 2 (quick) / 3 "
           "(thorough), tolerances symbolic positive, Jacobian modes {exact callable + linear solver returning fresh symbols, numerical 2-point Jacobian, "
           "reused LU (inexact Newton)}: every path through the real loop is explored.  fixed_point_iteration / fixed_point_iteration_with_momentum: arbitrary "
           "map, dimension 1..2, max_iter <= 3.  approx_fprime: quadratic scalar and linear matrix-valued functions with symbolic coefficients, 2-point and "
           "3-point.  Non-finite residuals: the norm of the scaled residual may be NaN at any evaluation (one symbolic "
           "decision per call, IEEE comparison semantics: every ordered comparison with NaN is false): success is never reported / no result returned on a NaN norm (fsolve and both fixed-point helpers).  "
           "Outside: 'cs' (complex arithmetic on symbolic scalars), ill-conditioning (a float phenomenon), NaN / inf elsewhere than in the error norms.",
    assumptions=["linear solves return an arbitrary vector (the criterion under test does not depend on the Newton direction)",
                 "atol, rtol, eps > 0"],
    trusted_base=["path exploration covers all feasible outcomes of the convergence tests within the iteration bound"],
)


class Script:
    """scripted environment: k-th call of the user function / linear solver returns the k-th vector of inputs"""

    def __init__(self, h, n, tag):
        self.h, self.n, self.tag = h, n, tag
        self.calls = []
        self.solves = 0

    inplace = False

    def fun(self, x, *a):
        k = len(self.calls)
        f = self.h.vec(f"{self.tag}f{k}_", self.n)
        self.calls.append((np.array(x, dtype=object if self.h.sym else float).copy(), f))
        if self.inplace:
            # a map that overwrites its argument and returns it (as the solver's own step maps do)
            for i in range(self.n):
                x[i] = f[i]
            return x
        return f

    def solve(self, *a):
        k = self.solves
        self.solves += 1
        return self.h.vec(f"{self.tag}dx{k}_", self.n)


class NanS:
    """a scaled residual norm that may be NaN (non-finite residual): IEEE comparison semantics - every ordered comparison with a NaN is false.
    Symbolic run: value = symbolic scalar, nan = symbolic boolean; float replay: a real float / float('nan')."""

    def __init__(self, v, nan):
        self.v, self.nan = v, nan

    def __truediv__(self, o):
        from symx.core import B
        if isinstance(o, NanS):
            return NanS(self.v / o.v, B.lift(self.nan) | B.lift(o.nan))
        if isinstance(o, float) and o == float("inf"):
            return NanS(0.0 * self.v, self.nan)
        return NanS(self.v / o, self.nan)

    def __rtruediv__(self, o):
        return NanS(o / self.v, self.nan)

    def _cmp(self, r):
        from symx.core import B
        return (~B.lift(self.nan)) & B.lift(r)

    def __lt__(self, o):
        return self._cmp(self.v < o)

    def __le__(self, o):
        return self._cmp(self.v <= o)

    def __gt__(self, o):
        return self._cmp(self.v > o)

    def __ge__(self, o):
        return self._cmp(self.v >= o)

    def __format__(self, spec):
        return "nan-able"


def _nan_numpy(h, real_np, flags):
    """numpy proxy for the fsolve module: linalg.norm may return NaN (one symbolic decision per call)"""
    import types

    class _NP(types.ModuleType):
        def __getattr__(self, k):
            return getattr(real_np, k)

    class _LA(types.ModuleType):
        def __getattr__(self, k):
            return getattr(real_np.linalg, k)
    npx, la = _NP("np"), _LA("la")

    def norm(x, *a, **k):
        flag = h.boolean(f"residual_is_nan_{len(flags)}")
        flags.append(flag)
        v = real_np.linalg.norm(x, *a, **k)
        if h.sym:
            return NanS(v, flag)
        return float("nan") if flag else v
    la.norm = norm
    npx.linalg = la
    return npx


def fsolve_contract(h, n=1, mode="exact", max_iter=2, nan=False):
    import cardillo.math.fsolve as F
    from cardillo.solver import SolverOptions
    sc = Script(h, n, "")
    flags = []
    if nan:
        # non-finite residuals: the norm of the scaled residual may be NaN at any evaluation
        real_np = F.np
        F.np = _nan_numpy(h, real_np, flags)
    atol, rtol = h.pos("atol"), h.pos("rtol")

    class ScriptLU:
        def solve(self_, rhs):
            return sc.solve()
    opts = SolverOptions(newton_atol=atol, newton_rtol=rtol, newton_max_iter=max_iter,
                         linear_solver=lambda A, b: sc.solve(), numerical_jacobian_method=("2-point" if mode == "numerical" else False))
    x0 = h.vec("x0_", n)
    kw = {}
    if mode == "exact":
        kw = dict(jac=lambda x, *a: None)
    elif mode == "lu":
        F.SuperLU = ScriptLU            # the reused-LU mode is recognised by isinstance(jac, SuperLU)
        kw = dict(jac=ScriptLU())
    elif mode == "inexact":
        F.splu = lambda A: ScriptLU()
        kw = dict(jac=lambda x, *a: None, inexact=True)
    if mode == "numerical":
        F.csc_array = lambda a: a       # the numerical Jacobian only feeds the (scripted) linear solver
    try:
        with h.capture() as cap:
            res = F.fsolve(sc.fun, x0, options=opts, **kw)
    finally:
        if nan:
            F.np = real_np
    # residual calls that count for the criterion: the first one and every one made by the loop itself (the numerical
    # Jacobian makes extra calls through the same wrapper)
    f0 = sc.calls[0][1]
    scale = atol + np.abs(f0) * rtol
    x_last, f_last = None, None
    for (xa, fa) in sc.calls:
        if np.all([(a is b) or (not h.sym and a == b) for a, b in zip(np.atleast_1d(fa), np.atleast_1d(res.fun))]):
            x_last, f_last = xa, fa
    h.holds("returned residual is one of the evaluated residuals", f_last is not None)
    if f_last is None:
        return
    # criterion ||f/scale|| / sqrt(n) < 1; the code divides by the double sqrt(n): a relative band of 1e-12 around the
    # threshold is left undecided (rounding of sqrt(n)), everything else is decided exactly
    ssum = sum((f_last[i] / scale[i]) * (f_last[i] / scale[i]) for i in range(n))
    succ = bool(res.success)
    if nan:
        # the residual norm evaluated last is the one the verdict must be based on
        last_nan = flags[-1]
        if succ:
            if h.sym:
                from symx.core import B
                h.holds("success is never reported for a non-finite (NaN) residual norm", ~B.lift(last_nan))
            else:
                h.holds("success is never reported for a non-finite (NaN) residual norm", not last_nan)
        warned = any("not converged" in w for w in cap["warnings"])
        h.holds("warns iff not converged", warned == (not succ))
        return
    if succ:
        h.holds("success reported only if the scaled residual criterion holds at the returned point", ssum < n * (1 + 1e-12))
    else:
        h.holds("failure reported only if the scaled residual criterion is missed at the returned point", ssum > n * (1 - 1e-12))
    h.eq("returned residual was evaluated at the returned point", x_last, res.x)
    warned = any("not converged" in w for w in cap["warnings"])
    h.holds("warns iff not converged", warned == (not succ))
    h.holds("iteration count within the limit", int(res.nit) <= max_iter)
    h.holds("function evaluations counted", int(res.nfev) == len(sc.calls))


def fixed_point_contract(h, n=1, which="plain", max_iter=2, inplace=False, nan=False):
    import cardillo.solver.dual_stormer_verlet as D
    sc = Script(h, n, "")
    sc.inplace = inplace
    flags = []
    if nan:
        real_np = D.np
        D.np = _nan_numpy(h, real_np, flags)
    atol, rtol = h.pos("atol"), h.pos("rtol")
    x0 = h.vec("x0_", n)
    if inplace and h.sym:
        x0 = np.array(list(x0), dtype=object)
    f = D.fixed_point_iteration if which == "plain" else D.fixed_point_iteration_with_momentum
    raised = None
    try:
        x, nit, err = f(lambda x: sc.fun(x), x0, atol=atol, rtol=rtol, max_iter=max_iter)
    except (ValueError, RuntimeError) as e:
        raised = e
    finally:
        if nan:
            D.np = real_np
    h.holds("number of map evaluations within the limit", len(sc.calls) <= max_iter)
    if nan:
        if raised is None:
            if h.sym:
                from symx.core import B
                h.holds("a result is never returned on a non-finite (NaN) error norm", ~B.lift(flags[-1]))
            else:
                h.holds("a result is never returned on a non-finite (NaN) error norm", not flags[-1])
        return

    def crit(xa, fa):
        s = 0.0
        for i in range(n):
            a, b = abs(xa[i]), abs(fa[i])
            m = np.maximum(a, b) if not h.sym else __import__("symx.symnp", fromlist=["maximum"]).maximum(a, b)
            sc_i = atol + m * rtol
            d = (fa[i] - xa[i]) / sc_i
            s = s + d * d
        return s
    if raised is None:
        xa, fa = sc.calls[-1]
        h.eq("returns the last iterate of the map", x, fa)
        h.holds("returned point meets the absolute/relative tolerance it was given", crit(xa, fa) < n * (1 + 1e-12))
        h.holds("iteration count reported", int(nit) == len(sc.calls))
    else:
        h.holds("raises only after exhausting the iteration limit", len(sc.calls) == max_iter)
        xa, fa = sc.calls[-1]
        h.holds("raises only when the last iterate misses the tolerance", crit(xa, fa) > n * (1 - 1e-12))


def fprime(h, kind="quadratic", method="3-point"):
    from cardillo.math.approx_fprime import approx_fprime
    eps = h.pos("eps")
    x = h.vec("x", 2)
    if kind == "quadratic":
        c, b, A = h.real("c"), h.vec("b", 2), h.mat("A", 2, 2)
        f = lambda y: c + b @ y + y @ A @ y
        with h.capture():
            g = approx_fprime(x, f, method=method, eps=eps)
        exact = b + (A + A.T) @ x
        if method == "3-point":
            h.eq("3-point difference is exact on quadratics", g, exact)
        else:
            h.eq("2-point difference error is eps * A_ii (first order)", g - exact, eps * np.array([A[0, 0], A[1, 1]], dtype=object if h.sym else float))
    elif kind == "matrix_argument":
        # argument = matrix handed over as a TRANSPOSED VIEW (not C-contiguous): f(X) = sum_ij W_ij X_ij + (sum_ij V_ij X_ij)^2 (3-point exact)
        W, V = h.mat("W", 2, 3), h.mat("V", 2, 3)
        Xs = h.mat("X", 3, 2)
        X = Xs.T                                # shape (2, 3), Fortran-ordered view
        f = lambda Y: np.sum(W * Y) + np.sum(V * Y) * np.sum(V * Y)
        with h.capture():
            g = approx_fprime(X, f, method=method, eps=eps)
        exact = W + 2 * np.sum(V * X) * V
        if method == "3-point":
            h.eq("matrix argument (transposed view): 3-point difference exact, shape of the argument", g, exact)
        else:
            h.eq("matrix argument (transposed view): 2-point difference error is eps * V_ij^2", g - exact, eps * V * V)
    else:
        T = np.array([[[h.real(f"T{i}{j}{k}") for k in range(2)] for j in range(2)] for i in range(2)], dtype=object if h.sym else float)
        C = h.mat("C", 2, 2)
        f = lambda y: C + T @ y
        with h.capture():
            g = approx_fprime(x, f, method=method, eps=eps)
        h.eq("matrix-valued linear map: derivative exact, shape (2,2,2)", g, T)


def cases(tier, seed):
    T = 60 if tier == "quick" else 300
    cs = []
    mi = 2 if tier == "quick" else 3
    for n in (1, 2):
        for mode in ("exact", "numerical", "lu", "inexact"):
            for m in range(1, mi + 1):
                if mode == "numerical" and (n == 2 and m > 2):
                    continue
                cs.append(Case(f"fsolve/{mode}/n{n}/maxit{m}", fsolve_contract, dict(n=n, mode=mode, max_iter=m), timeout=T, max_paths=64, sentinel=False))
                if n == 1:
                    cs.append(Case(f"fsolve_nan/{mode}/n{n}/maxit{m}", fsolve_contract, dict(n=n, mode=mode, max_iter=m, nan=True), timeout=T, max_paths=128,
                                   sentinel=False, crosscheck=False))
        for which in ("plain", "momentum"):
            for m in range(1, 4):
                cs.append(Case(f"fixed_point/{which}/n{n}/maxit{m}", fixed_point_contract, dict(n=n, which=which, max_iter=m), timeout=T, max_paths=128, sentinel=False))
            if n == 1:
                cs.append(Case(f"fixed_point_nan/{which}/n{n}/maxit2", fixed_point_contract, dict(n=n, which=which, max_iter=2, nan=True), timeout=T, max_paths=128,
                               sentinel=False, crosscheck=False))
            cs.append(Case(f"fixed_point/{which}/n{n}/maxit2/inplace_map", fixed_point_contract, dict(n=n, which=which, max_iter=2, inplace=True), timeout=T, max_paths=128, sentinel=False))
    for kind in ("quadratic", "matrix"):
        for method in ("2-point", "3-point"):
            cs.append(Case(f"approx_fprime/{kind}/{method}", fprime, dict(kind=kind, method=method), timeout=T))
    for method in ("2-point", "3-point"):
        cs.append(Case(f"approx_fprime/matrix_argument/{method}", fprime, dict(kind="matrix_argument", method=method), timeout=T))
    return cs
