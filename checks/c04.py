"""C04 Rigid body, point mass and frame kinematics are self-consistent."""
import numpy as np
from symx.run import Case
from checks.lib import spd3, Motion

PROPERTY = "C04"
META = dict(
    level="proof",
    bounds="all real q (quaternion part nonzero), u, u_dot, t, body-fixed offset B_r_CP, mass m>0, inertia Theta=L L^T (L lower "
           "triangular, positive diagonal); frame motions r(t) cubic with free coefficients and A(t)=A0 Rx(alpha(t)) Rz(theta(t)) "
           "with free A0, quadratic alpha/theta (free value, rate, acceleration at the evaluation instant), derivatives supplied in closed form.",
    assumptions=["quaternion part of q nonzero", "m > 0, diag(L) > 0",
                 "frame orientation family A0 Rx Rz (arbitrary orientation, angular velocity and angular acceleration at the instant; not an arbitrary function of t)"],
    trusted_base=[],
)


def _rb(h):
    from cardillo.discrete import RigidBody
    m = h.pos("m")
    Th = spd3(h, "Th")
    rb = RigidBody(m, Th)
    return rb, m, Th


def rb_kin(h, part=0):
    from cardillo.math import skew2ax, Exp_SO3_quat
    rb, m, Th = _rb(h)
    t = h.real("t")
    r = h.vec("r", 3)
    P = h.quat("P")
    q = np.concatenate([r, P])
    u = h.vec("u", 6)
    ud = h.vec("ud", 6)
    B = h.vec("B", 3)
    qd = rb.q_dot(t, q, u)
    dq = h.vec("dq", 7)
    du = h.vec("du", 6)
    if part == 0:
        h.eq("v_P = d/dt r_OP", h.D(lambda q_: rb.r_OP(t, q_, B_r_CP=B), (q,), (qd,)), rb.v_P(t, q, u, B_r_CP=B))
        h.eq("J_P = d v_P / d u", h.D(lambda u_: rb.v_P(t, q, u_, B_r_CP=B), (u,), (du,)), rb.J_P(t, q, B_r_CP=B) @ du)
        h.eq("v_P = J_P u", rb.J_P(t, q, B_r_CP=B) @ u, rb.v_P(t, q, u, B_r_CP=B))
        h.eq("a_P = d/dt v_P", h.D(lambda q_, u_: rb.v_P(t, q_, u_, B_r_CP=B), (q, u), (qd, ud)), rb.a_P(t, q, u, ud, B_r_CP=B))
        h.eq("kappa_P = a_P(u_dot=0)", rb.a_P(t, q, u, 0 * ud, B_r_CP=B), rb.kappa_P(t, q, u, B_r_CP=B))
        h.eq("a_P = J_P u_dot + kappa_P", rb.J_P(t, q, B_r_CP=B) @ ud + rb.kappa_P(t, q, u, B_r_CP=B), rb.a_P(t, q, u, ud, B_r_CP=B))
        A = rb.A_IB(t, q)
        Ad = h.D(lambda q_: rb.A_IB(t, q_), (q,), (qd,))
        h.eq("B_Omega = skew2ax(A^T A_dot)", skew2ax(A.T @ Ad), rb.B_Omega(t, q, u))
        h.eq("A^T A_dot + (A^T A_dot)^T = 0", A.T @ Ad + (A.T @ Ad).T, np.zeros((3, 3)))
        h.eq("B_Psi = d/dt B_Omega", h.D(lambda q_, u_: rb.B_Omega(t, q_, u_), (q, u), (qd, ud)), rb.B_Psi(t, q, u, ud))
        h.eq("B_J_R = d B_Omega / d u", h.D(lambda u_: rb.B_Omega(t, q, u_), (u,), (du,)), rb.B_J_R(t, q) @ du)
        h.eq("B_kappa_R = B_Psi(u_dot=0)", rb.B_Psi(t, q, u, 0 * ud), rb.B_kappa_R(t, q, u))
        h.eq("d/dt |P|^2 = 0 along q_dot", h.D(lambda q_: q_[3:] @ q_[3:], (q,), (qd,)), 0.0)
        h.eq("A_IB = Exp_SO3_quat(P)", rb.A_IB(t, q), Exp_SO3_quat(P))
        h.eq("gyroscopic power h.u = 0", rb.h(t, q, u) @ u, 0.0)
    elif part == 1:
        h.eq("r_OP_q", h.D(lambda q_: rb.r_OP(t, q_, B_r_CP=B), (q,), (dq,)), rb.r_OP_q(t, q, B_r_CP=B) @ dq)
        h.eq("A_IB_q", h.D(lambda q_: rb.A_IB(t, q_), (q,), (dq,)), rb.A_IB_q(t, q) @ dq)
        h.eq("v_P_q", h.D(lambda q_: rb.v_P(t, q_, u, B_r_CP=B), (q,), (dq,)), rb.v_P_q(t, q, u, B_r_CP=B) @ dq)
        h.eq("a_P_q", h.D(lambda q_: rb.a_P(t, q_, u, ud, B_r_CP=B), (q,), (dq,)), rb.a_P_q(t, q, u, ud, B_r_CP=B) @ dq)
        h.eq("a_P_u", h.D(lambda u_: rb.a_P(t, q, u_, ud, B_r_CP=B), (u,), (du,)), rb.a_P_u(t, q, u, ud, B_r_CP=B) @ du)
        h.eq("J_P_q", h.D(lambda q_: rb.J_P(t, q_, B_r_CP=B), (q,), (dq,)), rb.J_P_q(t, q, B_r_CP=B) @ dq)
        h.eq("kappa_P_q", h.D(lambda q_: rb.kappa_P(t, q_, u, B_r_CP=B), (q,), (dq,)), rb.kappa_P_q(t, q, u, B_r_CP=B) @ dq)
        h.eq("kappa_P_u", h.D(lambda u_: rb.kappa_P(t, q, u_, B_r_CP=B), (u,), (du,)), rb.kappa_P_u(t, q, u, B_r_CP=B) @ du)
    else:
        h.eq("q_dot_q", h.D(lambda q_: rb.q_dot(t, q_, u), (q,), (dq,)), rb.q_dot_q(t, q, u) @ dq)
        h.eq("q_dot_u", h.D(lambda u_: rb.q_dot(t, q, u_), (u,), (du,)), rb.q_dot_u(t, q) @ du)
        h.eq("h_u", h.D(lambda u_: rb.h(t, q, u_), (u,), (du,)), rb.h_u(t, q, u) @ du)
        h.eq("g_S_q", h.D(lambda q_: rb.g_S(t, q_), (q,), (dq,)), rb.g_S_q(t, q) @ dq)
        h.eq("B_Omega_q", h.D(lambda q_: rb.B_Omega(t, q_, u), (q,), (dq,)), rb.B_Omega_q(t, q, u) @ dq)
        h.eq("B_Psi_q", h.D(lambda q_: rb.B_Psi(t, q_, u, ud), (q,), (dq,)), rb.B_Psi_q(t, q, u, ud) @ dq)
        h.eq("B_Psi_u", h.D(lambda u_: rb.B_Psi(t, q, u_, ud), (u,), (du,)), rb.B_Psi_u(t, q, u, ud) @ du)
        h.eq("B_kappa_R_q", h.D(lambda q_: rb.B_kappa_R(t, q_, u), (q,), (dq,)), rb.B_kappa_R_q(t, q, u) @ dq)
        h.eq("B_kappa_R_u", h.D(lambda u_: rb.B_kappa_R(t, q, u_), (u,), (du,)), rb.B_kappa_R_u(t, q, u) @ du)
        h.eq("B_J_R_q", h.D(lambda q_: rb.B_J_R(t, q_), (q,), (dq,)), rb.B_J_R_q(t, q) @ dq)
        h.eq("g_S vanishes iff |P| = 1", rb.g_S(t, q), P @ P - 1.0)
        M = rb.M(t, q)
        h.eq("M symmetric", M, M.T)
        x = h.vec("x", 6)
        h.assume(x @ x > 0, "x != 0")
        h.le("x^T M x > 0", 0.0, x @ M @ x, strict=True)
        q1, u1 = rb.step_callback(t, q.copy(), u.copy())
        h.eq("step_callback: |P| = 1", q1[3:] @ q1[3:], 1.0)
        h.eq("step_callback keeps orientation", Exp_SO3_quat(q1[3:]), Exp_SO3_quat(P))
        h.eq("step_callback keeps position", q1[:3], r)
        h.eq("step_callback keeps velocity", u1, u)


def pm_kin(h):
    from cardillo.discrete import PointMass
    m = h.pos("m")
    pm = PointMass(m)
    t = h.real("t")
    q, u, ud = h.vec("q", 3), h.vec("u", 3), h.vec("ud", 3)
    dq, du = h.vec("dq", 3), h.vec("du", 3)
    B = h.vec("B", 3)
    qd = pm.q_dot(t, q, u)
    h.eq("v_P = d/dt r_OP", h.D(lambda q_: pm.r_OP(t, q_, B_r_CP=B), (q,), (qd,)), pm.v_P(t, q, u))
    h.eq("J_P = d v_P / d u", h.D(lambda u_: pm.v_P(t, q, u_), (u,), (du,)), pm.J_P(t, q) @ du)
    h.eq("a_P = d/dt v_P", h.D(lambda q_, u_: pm.v_P(t, q_, u_), (q, u), (qd, ud)), pm.a_P(t, q, u, ud))
    h.eq("r_OP_q", h.D(lambda q_: pm.r_OP(t, q_, B_r_CP=B), (q,), (dq,)), pm.r_OP_q(t, q) @ dq)
    h.eq("v_P_q", h.D(lambda q_: pm.v_P(t, q_, u), (q,), (dq,)), pm.v_P_q(t, q, u) @ dq)
    h.eq("a_P_q", h.D(lambda q_: pm.a_P(t, q_, u, ud), (q,), (dq,)), pm.a_P_q(t, q, u, ud) @ dq)
    h.eq("a_P_u", h.D(lambda u_: pm.a_P(t, q, u_, ud), (u,), (du,)), pm.a_P_u(t, q, u, ud) @ du)
    h.eq("J_P_q", h.D(lambda q_: pm.J_P(t, q_), (q,), (dq,)), pm.J_P_q(t, q) @ dq)
    h.eq("q_dot_u", h.D(lambda u_: pm.q_dot(t, q, u_), (u,), (du,)), pm.q_dot_u(t, q) @ du)
    M = pm.M(t, q)
    h.eq("M symmetric", M, M.T)
    h.eq("E_kin = 1/2 u^T M u", pm.E_kin(t, q, u), 0.5 * (u @ M @ u))
    x = h.vec("x", 3)
    h.assume(x @ x > 0, "x != 0")
    h.le("x^T M x > 0", 0.0, x @ M @ x, strict=True)


def frame_kin(h):
    from cardillo.math import skew2ax
    t = h.real("t")
    mo = Motion(h, "f")
    fr = mo.frame(t)
    B = h.vec("B", 3)
    one = 1.0
    h.eq("v_P = d/dt r_OP", h.D(lambda t_: fr.r_OP(t_, B_r_CP=B), (t,), (one,)), fr.v_P(t, B_r_CP=B))
    h.eq("a_P = d/dt v_P", h.D(lambda t_: fr.v_P(t_, B_r_CP=B), (t,), (one,)), fr.a_P(t, B_r_CP=B))
    A = fr.A_IB(t)
    Ad = h.D(lambda t_: fr.A_IB(t_), (t,), (one,))
    h.eq("A A^T = I (harness motion is a rotation)", A @ A.T, np.eye(3))
    h.eq("B_Omega = skew2ax(A^T A_dot)", skew2ax(A.T @ Ad), fr.B_Omega(t))
    h.eq("B_Psi = d/dt B_Omega", h.D(lambda t_: fr.B_Omega(t_), (t,), (one,)), fr.B_Psi(t))
    h.eq("B_kappa_R = B_Psi (no generalized velocities)", fr.B_kappa_R(t), fr.B_Psi(t))
    h.eq("kappa_P = a_P (no generalized velocities)", fr.kappa_P(t, B_r_CP=B), fr.a_P(t, B_r_CP=B))
    for nm in ("r_OP_q", "v_P_q", "J_P", "a_P_q", "a_P_u", "kappa_P_q", "kappa_P_u", "B_Omega_q", "B_Psi_q", "B_Psi_u", "B_kappa_R_q", "B_kappa_R_u"):
        r = getattr(fr, nm)(t, None) if nm in ("J_P",) else getattr(fr, nm)(t)
        h.holds(f"{nm} is empty (no coordinates)", int(np.asarray(r).size) == 0)


def cases(tier, seed):
    T = 60 if tier == "quick" else 300
    return [
        Case("rb/kinematics", rb_kin, dict(part=0), timeout=T),
        Case("rb/partials_q", rb_kin, dict(part=1), timeout=T),
        Case("rb/partials_misc", rb_kin, dict(part=2), timeout=T),
        Case("pm", pm_kin, {}, timeout=T),
        Case("frame", frame_kin, {}, timeout=T),
    ]
