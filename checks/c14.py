"""C14 System assembly is a faithful, repeatable scatter of its contributions."""
import itertools
import numpy as np
from symx.run import Case
from checks import lib

PROPERTY = "C14"
META = dict(
    level="proof",
    bounds="(a) scatter: three seeded system families (rigid body + point mass + moving frame with revolute / spherical joints, springs in both forms on "
           "two-point interactions, Maxwell element, PD controller and motor, external force; point mass and rigid body on a plane with friction + "
           "sphere-sphere contact; quaternion rod with a line load and a rigid connection): every System evaluation on a SYMBOLIC state equals, entry by "
           "entry, the dense accumulation of the contributions' own outputs at their DOFs; (b) index sets partition the global ranges (integers, checked "
           "directly); (b') derived evaluations xi_F, chi_N, chi_g, zeta_g, g_dot_u, E_kin, Mu_q, tau / set_tau (vector and callable) "
           "on the three families and on an actuator family (PD controller with 2 inputs / 1 force, two motors, compliance spring); (b'') h / h_q / h_u on a rod with a spring between two of its own cross-sections (index sets with repeated DOFs); (c) assemble() twice: identical layout and evaluations; (d) name registry: all add / remove / pop / extend histories of length <= 3 "
           "(quick) / 4 over contributions with colliding names.",
    assumptions=["quaternion parts nonzero", "sparse containers stubbed by their COO->dense law (C15)"],
    trusted_base=[],
)

# system function -> (base property deciding membership, method on the contribution, argument letters, row DOF, column DOF)
VEC = {
    "q_dot": ("q_dot", "q_dot", "tqu", "my_qDOF"), "h": ("h", "h", "tqu", "uDOF"), "g": ("g", "g", "tq", "la_gDOF"),
    "g_dot": ("g", "g_dot", "tqu", "la_gDOF"), "g_ddot": ("g", "g_ddot", "tqua", "la_gDOF"), "gamma": ("gamma", "gamma", "tqu", "la_gammaDOF"),
    "la_c": ("c", "la_c", "tqu", "la_cDOF"), "c": ("c", "c", "tquC", "la_cDOF"), "la_tau": ("la_tau", "la_tau", "tqu", "la_tauDOF"),
    "g_S": ("g_S", "g_S", "tq", "la_SDOF"), "g_N": ("g_N", "g_N", "tq", "la_NDOF"), "g_N_dot": ("g_N", "g_N_dot", "tqu", "la_NDOF"),
    "g_N_ddot": ("g_N", "g_N_ddot", "tqua", "la_NDOF"), "gamma_F": ("gamma_F", "gamma_F", "tqu", "la_FDOF"),
    "gamma_F_dot": ("gamma_F", "gamma_F_dot", "tqua", "la_FDOF"),
}
MAT = {
    "q_dot_q": ("q_dot_q", "q_dot_q", "tqu", "my_qDOF", "qDOF"), "q_dot_u": ("q_dot_u", "q_dot_u", "tq", "my_qDOF", "uDOF"),
    "h_q": ("h_q", "h_q", "tqu", "uDOF", "qDOF"), "h_u": ("h_u", "h_u", "tqu", "uDOF", "uDOF"),
    "g_q": ("g", "g_q", "tq", "la_gDOF", "qDOF"), "W_g": ("g", "W_g", "tq", "uDOF", "la_gDOF"), "g_dot_u": ("g", "g_dot_u", "tq", "la_gDOF", "uDOF"),
    "g_dot_q": ("g", "g_dot_q", "tqu", "la_gDOF", "qDOF"), "Wla_g_q": ("g", "Wla_g_q", "tqG", "uDOF", "qDOF"),
    "c_q": ("c_q", "c_q", "tquC", "la_cDOF", "qDOF"), "c_u": ("c_u", "c_u", "tquC", "la_cDOF", "uDOF"), "W_c": ("c", "W_c", "tq", "uDOF", "la_cDOF"),
    "Wla_c_q": ("c_q", "Wla_c_q", "tqC", "uDOF", "qDOF"), "W_tau": ("la_tau", "W_tau", "tq", "uDOF", "la_tauDOF"),
    "Wla_tau_q": ("la_tau", "Wla_tau_q", "tqu", "uDOF", "qDOF"), "Wla_tau_u": ("la_tau", "Wla_tau_u", "tqu", "uDOF", "uDOF"),
    "g_S_q": ("g_S", "g_S_q", "tq", "la_SDOF", "qDOF"), "g_N_q": ("g_N", "g_N_q", "tq", "la_NDOF", "qDOF"), "W_N": ("g_N", "W_N", "tq", "uDOF", "la_NDOF"),
    "Wla_N_q": ("g_N", "Wla_N_q", "tqN", "uDOF", "qDOF"), "gamma_F_q": ("gamma_F_q", "gamma_F_q", "tqu", "la_FDOF", "qDOF"),
    "W_F": ("gamma_F", "W_F", "tq", "uDOF", "la_FDOF"), "Wla_F_q": ("gamma_F", "Wla_F_q", "tqF", "uDOF", "qDOF"),
    "xi_N_q": ("g_N", "g_N_dot_q", "tqu", "la_NDOF", "qDOF"), "xi_F_q": ("gamma_F", "gamma_F_q", "tqu", "la_FDOF", "qDOF"),
}
SIZES = dict(my_qDOF="nq", qDOF="nq", uDOF="nu", la_gDOF="nla_g", la_gammaDOF="nla_gamma", la_cDOF="nla_c", la_tauDOF="nla_tau", la_SDOF="nla_S",
             la_NDOF="nla_N", la_FDOF="nla_F")


def family(h, which, seed):
    from cardillo import System
    import cardillo.constraints as C
    from cardillo.forces import Force
    from cardillo.interactions import TwoPointInteraction
    from cardillo.force_laws import Spring, KelvinVoigtElement, MaxwellElement
    from cardillo.actuators import PDcontroller, Motor
    from cardillo.contacts import Sphere2Plane, Sphere2Sphere
    from cardillo.discrete import Frame
    rng = np.random.default_rng(seed + 17)
    sysm = System()
    if which == "mechanism":
        a, b, pm = lib.make_rb(rng, "a"), lib.make_rb(rng, "b"), lib.make_pm(rng, "pm")
        fr = lib.make_frame(h, rng, "fr", moving=False)[0]
        rev = C.Revolute(fr, a, axis=2, r_OJ0=np.zeros(3), A_IJ0=np.eye(3), name="rev")
        sph = C.Spherical(a, b, r_OJ0=np.array([0.5, 0.0, 0.25]), name="sph")
        tp1, tp2, tp3 = TwoPointInteraction(b, pm, name="tp1"), TwoPointInteraction(a, pm, name="tp2"), TwoPointInteraction(fr, b, name="tp3")
        els = [Spring(tp1, 3.0, l_ref=0.5, compliance_form=False, name="s1"), KelvinVoigtElement(tp2, 2.0, 0.5, l_ref=0.25, compliance_form=True, name="kv"),
               MaxwellElement(tp3, 2.0, 1.5, l_ref=0.75, name="mx"), Motor(rev, 1.5),
               Force(np.array([0.0, 0.0, -9.81]), b, B_r_CP=np.array([0.25, 0.0, 0.0]), name="f")]
        els[3].name = "motor"      # (PD / PID controllers read the joint angle: their Jacobians are the subject of C08)
        sysm.add(a, b, pm, fr, rev, sph, tp3, *els)
    elif which == "actuators":
        # two revolute joints with a PD controller (2 inputs, 1 force), a motor and a PID controller (extra coordinate): sizes ntau != nla_tau
        from cardillo.actuators import PIDcontroller
        a, b = lib.make_rb(rng, "a"), lib.make_rb(rng, "b")
        fr = lib.make_frame(h, rng, "fr", moving=False)[0]
        r1 = C.Revolute(fr, a, axis=2, r_OJ0=np.zeros(3), A_IJ0=np.eye(3), name="rev1")
        r2 = C.Revolute(a, b, axis=0, r_OJ0=np.array([0.5, 0.0, 0.25]), A_IJ0=np.eye(3), name="rev2")
        pd = PDcontroller(r1, 2.0, 0.5, np.array([0.25, 0.5]))
        mot = Motor(r2, 1.5)
        mot2 = Motor(r1, -0.75)
        pd.name, mot.name, mot2.name = "pd", "motor", "motor2"
        sysm.add(a, b, fr, r1, r2, pd, mot, mot2, Spring(r2, 3.0, l_ref=0.25, compliance_form=True, name="s_compl"))
    elif which == "contacts":
        a, pm, pm2 = lib.make_rb(rng, "a"), lib.make_pm(rng, "pm"), lib.make_pm(rng, "pm2")
        fr = Frame(name="plane")
        c1 = Sphere2Plane(fr, a, mu=0.3, r=0.25, e_N=0.5, name="c1")
        c2 = Sphere2Plane(fr, pm, mu=0.0, r=0.125, e_N=0.0, name="c2")
        c3 = Sphere2Sphere(pm, pm2, 0.25, 0.5, 0.2, e_N=0.25, name="c3")
        sysm.add(a, pm, pm2, fr, c1, c2, c3, Force(np.array([0.0, 0.0, -9.81]), a, name="f"))
    elif which == "rod_tendon":
        # a spring between two cross-sections of the SAME rod: its index sets contain the shared element's DOFs twice
        rod, Q, nn = lib.make_rod(h, interp="Quaternion", mixed=False, p=1, nel=1, Q="curved", seed=seed, assemble=False)
        tp = TwoPointInteraction(rod, rod, xi1=0.0, xi2=1.0, name="tp")
        sysm.add(rod, tp, Spring(tp, 3.0, l_ref=0.5, compliance_form=False, name="tendon"))
    else:
        from cardillo.rods.force_line_distributed import Force_line_distributed
        rod, Q, nn = lib.make_rod(h, interp="Quaternion", mixed=(which == "rod_mixed"), constraints=([1, 2] if which == "rod_mixed" else None), p=1, nel=2,
                                  Q="curved", seed=seed, assemble=False)
        fr = Frame(name="clamp")
        rc = C.RigidConnection(fr, rod, xi2=0.0, name="clamp_joint")
        load = Force_line_distributed(np.array([0.0, 0.0, -1.0]), rod)
        load.name = "line_load"
        sysm.add(rod, fr, rc, load)
    lib.assemble(sysm)
    return sysm


def _state(h, sysm):
    t = h.real("t")
    q, u, ud = h.vec("q", sysm.nq), h.vec("u", sysm.nu), h.vec("ud", sysm.nu)
    for c in sysm.contributions:
        if hasattr(c, "nodalDOF_p"):
            for k in range(len(c.nodalDOF_p)):
                P = q[c.qDOF[c.nodalDOF_p[k]]]
                h.assume(P @ P > 0, "nodal quaternion nonzero")
        elif getattr(c, "nq", 0) == 7 and hasattr(c, "B_Theta_C"):
            P = q[c.qDOF[3:7]]
            h.assume(P @ P > 0, "quaternion nonzero")
    la = dict(G=h.vec("lg", sysm.nla_g), C=h.vec("lc", sysm.nla_c), N=h.vec("lN", sysm.nla_N), F=h.vec("lF", sysm.nla_F))
    return t, q, u, ud, la


def _args(letters, c, t, q, u, ud, la):
    out = []
    for ch in letters:
        if ch == "t":
            out.append(t)
        elif ch == "q":
            out.append(q[c.qDOF])
        elif ch == "u":
            out.append(u[c.uDOF])
        elif ch == "a":
            out.append(ud[c.uDOF])
        elif ch == "G":
            out.append(la["G"][c.la_gDOF])
        elif ch == "C":
            out.append(la["C"][c.la_cDOF])
        elif ch == "N":
            out.append(la["N"][c.la_NDOF])
        elif ch == "F":
            out.append(la["F"][c.la_FDOF])
    return out


def _dense(x):
    if hasattr(x, "toarray"):
        return np.asarray(x.toarray())
    return np.asarray(x)


def scatter(h, which="mechanism", group=0, seed=0, only=None):
    sysm = family(h, which, seed)
    t, q, u, ud, la = _state(h, sysm)
    has = lambda c, p: hasattr(c, p) and callable(getattr(c, p))
    names = sorted(VEC) + sorted(MAT)
    mine = [n for i, n in enumerate(names) if i % 4 == group] if only is None else list(only)
    obj = object if h.sym else float
    for name in mine:
        if name in VEC:
            base, meth, letters, rdof = VEC[name]
            contrs = [c for c in sysm.contributions if has(c, base)]
            ref = np.zeros(getattr(sysm, SIZES[rdof]), dtype=obj)
            for c in contrs:
                val = np.atleast_1d(getattr(c, meth)(*_args(letters, c, t, q, u, ud, la)))
                for i, ri in enumerate(getattr(c, rdof)):          # (entry by entry: an index set may contain a DOF twice)
                    ref[ri] = ref[ri] + val[i]
            sargs = dict(tq=(t, q), tqu=(t, q, u), tqua=(t, q, u, ud), tquC=(t, q, u, la["C"]))[letters]
        else:
            base, meth, letters, rdof, cdof = MAT[name]
            contrs = [c for c in sysm.contributions if has(c, base)]
            ref = np.zeros((getattr(sysm, SIZES[rdof]), getattr(sysm, SIZES[cdof])), dtype=obj)
            for c in contrs:
                try:
                    blk = getattr(c, meth)(*_args(letters, c, t, q, u, ud, la))
                except NotImplementedError:
                    blk = None
                if blk is None:
                    continue
                blk = _dense(blk)
                R, Cc = getattr(c, rdof), getattr(c, cdof)
                blk = np.atleast_2d(blk).reshape(len(R), len(Cc)) if blk.size == len(R) * len(Cc) else blk
                for i, ri in enumerate(R):
                    for j, cj in enumerate(Cc):
                        ref[ri, cj] = ref[ri, cj] + blk[i, j]
            sargs = dict(tq=(t, q), tqu=(t, q, u), tqG=(t, q, la["G"]), tquC=(t, q, u, la["C"]), tqC=(t, q, la["C"]), tqN=(t, q, la["N"]), tqF=(t, q, la["F"]))[letters]
        if not contrs and name not in ("q_dot", "h"):
            continue
        try:
            with h.capture():
                val = getattr(sysm, name)(*sargs)
        except NotImplementedError:
            h.holds(f"System.{name}: a contribution declares the quantity unimplemented", True)
            continue
        h.eq(f"System.{name} = scatter of the contributions", _dense(val), ref)
    if group == 0 and only is None:
        M = _dense(sysm.M(t, q))
        ref = np.zeros((sysm.nu, sysm.nu), dtype=obj)
        for c in sysm.contributions:
            if has(c, "M"):
                blk = _dense(c.M(t, q[c.qDOF]))
                for i, ri in enumerate(c.uDOF):
                    for j, cj in enumerate(c.uDOF):
                        ref[ri, cj] = ref[ri, cj] + blk[i, j]
        h.eq("System.M = scatter of the contributions", M, ref)
        E = 0.0
        for c in sysm.contributions:
            if has(c, "E_pot"):
                E = E + c.E_pot(t, q[c.qDOF])
        h.eq("System.E_pot = sum of the contributions", sysm.E_pot(t, q), E)
        # xi_N / xi_F combine post- and pre-impact rates with the restitution coefficients
        if sysm.nla_N:
            q2, u2, t2 = h.vec("qq", sysm.nq), h.vec("uu", sysm.nu), h.real("tt")
            ref = np.zeros(sysm.nla_N, dtype=obj)
            for c in sysm.contributions:
                if has(c, "g_N"):
                    ref[c.la_NDOF] = c.g_N_dot(t, q[c.qDOF], u[c.uDOF]) + c.e_N * c.g_N_dot(t2, q2[c.qDOF], u2[c.uDOF])
            h.eq("System.xi_N = post-impact rate + e_N pre-impact rate", sysm.xi_N(t2, t, q2, q, u2, u), ref)


def derived(h, which="contacts", seed=0):
    """system-level evaluations that are defined through other ones: xi_F, chi_*, zeta_*, E_kin, Mu_q, tau / set_tau"""
    sysm = family(h, which, seed)
    t, q, u, ud, la = _state(h, sysm)
    has = lambda c, p: hasattr(c, p) and callable(getattr(c, p))
    obj = object if h.sym else float
    zero = np.zeros(sysm.nu)
    if sysm.nla_F:
        q2, u2, t2 = h.vec("qq", sysm.nq), h.vec("uu", sysm.nu), h.real("tt")
        ref = np.zeros(sysm.nla_F, dtype=obj)
        for c in sysm.contributions:
            if has(c, "gamma_F"):
                ref[c.la_FDOF] = c.gamma_F(t, q[c.qDOF], u[c.uDOF]) + c.e_F * c.gamma_F(t2, q2[c.qDOF], u2[c.uDOF])
        h.eq("System.xi_F = post-impact slip + e_F pre-impact slip", sysm.xi_F(t2, t, q2, q, u2, u), ref)
    if sysm.nla_N:
        v = h.call("System.chi_N evaluates", sysm.chi_N, t, q)
        if v is not None:
            h.eq("System.chi_N = g_N_dot(t, q, 0)", v, sysm.g_N_dot(t, q, zero))
    if sysm.nla_g:
        h.eq("System.chi_g = g_dot(t, q, 0)", sysm.chi_g(t, q), sysm.g_dot(t, q, zero))
        h.eq("System.zeta_g = g_ddot(t, q, u, 0)", sysm.zeta_g(t, q, u), sysm.g_ddot(t, q, u, zero))
        Wg = _dense(sysm.W_g(t, q))
        h.eq("System.g_dot_u = W_g^T", _dense(sysm.g_dot_u(t, q)), Wg.T)
    E = 0.0
    for c in sysm.contributions:
        if has(c, "E_kin"):
            E = E + c.E_kin(t, q[c.qDOF], u[c.uDOF])
    h.eq("System.E_kin = sum of the contributions", sysm.E_kin(t, q, u), E)
    ref = np.zeros((sysm.nu, sysm.nq), dtype=obj)
    for c in sysm.contributions:
        if has(c, "Mu_q"):
            blk = _dense(c.Mu_q(t, q[c.qDOF], u[c.uDOF]))
            for i, ri in enumerate(c.uDOF):
                for j, cj in enumerate(c.qDOF):
                    ref[ri, cj] = ref[ri, cj] + blk[i, j]
    h.eq("System.Mu_q = scatter of the contributions", _dense(sysm.Mu_q(t, q, u)), ref)
    acts = [c for c in sysm.contributions if hasattr(c, "tauDOF")]
    if acts:
        allidx = sorted(i for c in acts for i in c.tauDOF)
        h.holds("tauDOF partitions range(ntau)", allidx == list(range(sysm.ntau)), info=str(allidx))
        ref = np.zeros(sysm.ntau, dtype=obj)
        for c in acts:
            ref[c.tauDOF] = np.atleast_1d(c.tau(t))
        h.eq("System.tau = scatter of the actuators' inputs", sysm.tau(t), ref)
        # set_tau distributes a global input vector (constant and callable form) to the actuators
        newtau = h.vec("newtau", sysm.ntau)
        sysm.set_tau(newtau)
        def same(name, got, want):
            got, want = np.atleast_1d(got), np.atleast_1d(want)
            h.holds(name + " (size)", got.shape == want.shape, info=f"{got.shape} vs {want.shape}")
            if got.shape == want.shape:
                h.eq(name, got, want)
        for c in acts:
            same(f"set_tau(vector): actuator {c.name} receives its own entries", c.tau(t), newtau[c.tauDOF])
        v = h.call("set_tau(vector): System.tau evaluates", sysm.tau, t)
        if v is not None:
            same("set_tau(vector): System.tau returns the vector", v, newtau)
        sysm.set_tau(lambda tt: newtau * tt)
        for c in acts:
            same(f"set_tau(callable): actuator {c.name} receives its own entries", c.tau(t), (newtau * t)[c.tauDOF])


def layout(h, which="mechanism", seed=0, evaluations=True):
    """index sets partition the global ranges; assembling twice changes nothing"""
    sysm = family(h, which, seed)

    def snapshot():
        d = {}
        for c in sysm.contributions:
            for k in SIZES:
                if hasattr(c, k):
                    d[(c.name, k)] = tuple(int(x) for x in getattr(c, k))
        d["dims"] = tuple(getattr(sysm, v) for v in sorted(set(SIZES.values())))
        return d
    s1 = snapshot()
    for k, size in (("my_qDOF", "nq"), ("la_gDOF", "nla_g"), ("la_cDOF", "nla_c"), ("la_tauDOF", "nla_tau"), ("la_SDOF", "nla_S"), ("la_NDOF", "nla_N"),
                    ("la_FDOF", "nla_F"), ("la_gammaDOF", "nla_gamma")):
        allidx = sorted(i for c in sysm.contributions if hasattr(c, k) for i in getattr(c, k))
        h.holds(f"{k} partitions range({size})", allidx == list(range(getattr(sysm, size))), info=str(allidx)[:80])
    allu = sorted(i for c in sysm.contributions if hasattr(c, "my_uDOF") for i in c.my_uDOF)
    h.holds("my_uDOF partitions range(nu)", allu == list(range(sysm.nu)))
    if not evaluations:
        # (controllers read the joint angle, which is only defined on the joint manifold: layout clauses only)
        lib.assemble(sysm)
        h.holds("assemble() twice: identical layout", s1 == snapshot())
        for c in sysm.contributions:
            if hasattr(c, "la_tauDOF"):
                h.holds(f"{c.name}: la_tauDOF has the actuator's own number of forces", len(c.la_tauDOF) == c.nla_tau)
        return
    t, q, u, ud, la = _state(h, sysm)
    with h.capture():
        la_c = h.vec("la_c", sysm.nla_c) if sysm.nla_c else np.zeros(0)

        def evaluate():
            return [np.asarray(sysm.h(t, q, u)), _dense(sysm.W_g(t, q)), np.asarray(sysm.g(t, q)), _dense(sysm.M(t, q)), np.asarray(sysm.q_dot(t, q, u)),
                    np.asarray(sysm.c(t, q, u, la_c)), _dense(sysm.c_la_c()), _dense(sysm.W_c(t, q)), _dense(sysm.W_gamma(t, q)),
                    _dense(sysm.W_tau(t, q)), _dense(sysm.W_N(t, q)), _dense(sysm.W_F(t, q)), np.asarray(sysm.g_N(t, q))]
        before = evaluate()
        lib.assemble(sysm)
        after = evaluate()
        lib.assemble(sysm)
        third = evaluate()
    s2 = snapshot()
    h.holds("assemble() twice: identical layout", s1 == s2)
    for nm, a, b, c3 in zip(("h", "W_g", "g", "M", "q_dot", "c", "c_la_c", "W_c", "W_gamma", "W_tau", "W_N", "W_F", "g_N"), before, after, third):
        h.eq(f"assemble() twice: {nm} unchanged", b, a)
        h.eq(f"assemble() three times: {nm} unchanged", c3, a)


def registry(h, ops=()):
    """names stay unique and the registry maps exactly the current contributions across add / remove / pop / extend"""
    from cardillo import System
    from cardillo.discrete import PointMass

    def mk(name=None):
        p = PointMass(1.0)
        if name is None:
            del p.name
        else:
            p.name = name
        return p
    sysm = System()
    pool = []
    with h.capture():
        for k, op in enumerate(ops):
            kind, arg = op
            try:
                if kind == "add":
                    c = mk(arg)
                    sysm.add(c)
                    pool.append(c)
                elif kind == "extend":
                    cs = [mk(arg), mk(arg)]
                    sysm.extend(cs)
                    pool += cs
                elif kind == "remove":
                    if pool:
                        c = pool.pop(arg % len(pool))
                        sysm.remove(c)
                elif kind == "pop":
                    if len(sysm.contributions) > 1:
                        c = sysm.contributions[-1]
                        sysm.pop(-1)
                        if c in pool:
                            pool.remove(c)
                elif kind == "readd":
                    if pool:
                        c = pool[arg % len(pool)]
                        try:
                            sysm.add(c)
                            h.holds(f"op {k}: adding a contribution twice is rejected", False)
                        except ValueError:
                            pass
            except Exception as e:
                h.holds(f"op {k} {op}: no unexpected exception", False, info=f"{type(e).__name__}: {e}")
            names = [c.name for c in sysm.contributions]
            tag = "/".join(f"{a}:{b}" for a, b in ops[: k + 1])
            h.holds(f"after [{tag}]: names unique", len(set(names)) == len(names), info=str(names))
            h.holds(f"after [{tag}]: registry maps exactly the current contributions",
                    set(sysm.contributions_map.keys()) == set(names) and all(sysm.contributions_map[c.name] is c for c in sysm.contributions),
                    info=f"map={sorted(sysm.contributions_map)} names={sorted(names)}")


def registry_batch(h, chunk=()):
    for ops in chunk:
        registry(h, tuple(tuple(o) for o in ops))


def coverage_extra(cases, results):
    hist = sum(len(c.params.get("chunk", [])) for c in cases if c.id.startswith("registry/"))
    return dict(registry_histories=hist)


MENU = [("add", "a"), ("add", None), ("add", "a_contr3"), ("add", "contr2"), ("extend", "a"), ("remove", 0), ("remove", 1), ("pop", 0), ("readd", 0)]


def cases(tier, seed):
    T = 60 if tier == "quick" else 300
    cs = []
    for which in ("mechanism", "contacts", "rod_db", "rod_mixed"):
        for g in range(4):
            cs.append(Case(f"scatter/{which}/group{g}", scatter, dict(which=which, group=g, seed=seed), timeout=T, hard=1200, sentinel=False))
        cs.append(Case(f"layout/{which}", layout, dict(which=which, seed=seed), timeout=T, sentinel=False))
        cs.append(Case(f"derived/{which}", derived, dict(which=which, seed=seed), timeout=T, hard=T * 8, sentinel=False))
    cs.append(Case("scatter/rod_tendon/h", scatter, dict(which="rod_tendon", group=0, seed=seed, only=("h", "h_q", "h_u")), timeout=T, hard=1200, sentinel=False))
    cs.append(Case("derived/actuators", derived, dict(which="actuators", seed=seed), timeout=T, hard=T * 8, sentinel=False))
    cs.append(Case("layout_only/actuators", layout, dict(which="actuators", seed=seed, evaluations=False), timeout=T, sentinel=False))
    L = 3 if tier == "quick" else 4
    hist = []
    for n in range(1, L + 1):
        hist += [list(x) for x in itertools.product(MENU, repeat=n)]
    B = 60
    for b in range(0, len(hist), B):
        cs.append(Case(f"registry/{b // B:03d}", registry_batch, dict(chunk=hist[b:b + B]), timeout=30, patch=False, sentinel=False))
    return cs
