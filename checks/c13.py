"""C13 Finite-element basis, quadrature and connectivity are correct."""
import numpy as np
from symx.run import Case

PROPERTY = "C13"
META = dict(
    level="proof",
    bounds="Lagrange basis: degrees 1..3 x element counts 1..4 (quick) / degrees 1..5 x element counts 1..12 (thorough), uniform knots and (degree 1) seeded "
           "non-uniform knots, xi SYMBOLIC in [0, 1] (one path per knot interval and per boundary test of the real element lookup / normalisation code); "
           "Gauss n = 1..4 (quick) / 1..6 (thorough), Lobatto n = 2..5 / 2..7, interval [a, b] symbolic in [-2, 2], every monomial degree up to 2n-1 "
           "(Lobatto 2n-3) (linearity gives all polynomials); connectivity enumerated over the same grid (integer data, no solver needed).  Because basis "
           "coefficients and quadrature nodes are floats, identities are decided with explicit absolute tolerances over their exact rational values "
           "(1e-12 partition of unity, 1e-9/h derivative sums, 1e-10 / 1e-8 quadrature).  Non-uniform knot data with degree >= 2 is rejected by an assertion "
           "in LagrangeKnotVector (noted, outside).",
    assumptions=["0 <= xi <= 1", "-2 <= a < b <= 2", "roots_legendre / Legendre.roots (C code) return the doubles they return: taken as exact rationals"],
    trusted_base=["numpy.polynomial.Polynomial evaluated on symbolic scalars (Horner scheme in Python)"],
)


def _knots(degree, nel, nonuniform, seed):
    from cardillo.rods.discretization.lagrange import LagrangeKnotVector
    if not nonuniform:
        return LagrangeKnotVector(degree, nel)
    rng = np.random.default_rng(seed + 7 * nel)
    w = 0.5 + rng.random(nel)
    data = np.concatenate([[0.0], np.cumsum(w) / np.sum(w)])
    data[-1] = 1.0
    return LagrangeKnotVector(degree, nel, data=data)


def basis(h, degree=2, nel=2, nonuniform=False, seed=0):
    from cardillo.rods.discretization.lagrange import lagrange_basis1D
    kv = _knots(degree, nel, nonuniform, seed)
    xi = h.real("xi")
    h.assume(xi >= 0.0, "xi >= 0")
    h.assume(xi <= 1.0, "xi <= 1")
    el = int(kv.element_number(xi)[0])
    lo, hi = kv.element_interval(el)
    h.le("element lookup: lower knot <= xi", lo, xi)
    h.le("element lookup: xi <= upper knot", xi, hi)
    h.holds("element lookup: index in range", 0 <= el < nel)
    if nonuniform:
        # the partition the user asked for (degree 1: the data are the element boundaries) is the ground truth, not the knot vector's own tables
        data = np.asarray(kv.data, dtype=float)
        h.le("element lookup: user's lower boundary <= xi", float(data[el]), xi)
        h.le("element lookup: xi <= user's upper boundary", xi, float(data[el + 1]))
        h.holds("element interval = the user's boundaries", float(lo) == float(data[el]) and float(hi) == float(data[el + 1]), info=f"{lo}, {hi} vs {data[el]}, {data[el + 1]}")
    N = lagrange_basis1D(degree, xi, 1, kv)
    hlen = float(hi - lo)
    s0 = sum(N[0][i] for i in range(degree + 1))
    s1 = sum(N[1][i] for i in range(degree + 1))
    h.eq("partition of unity", s0, 1.0, tol=1e-12)
    h.eq("derivatives sum to zero", s1 * hlen, 0.0, tol=1e-9)


def kronecker(h, degree=2, nel=2, nonuniform=False, seed=0):
    """nodal (Kronecker) property and derivative consistency at concrete parameters"""
    from cardillo.rods.discretization.lagrange import lagrange_basis1D
    kv = _knots(degree, nel, nonuniform, seed)
    for el in range(nel):
        lo, hi = kv.element_interval(el)
        for j in range(degree + 1):
            xj = lo + (hi - lo) * j / degree
            if el < nel - 1 and j == degree:
                continue        # shared node belongs to the next element in the lookup
            N = np.asarray(lagrange_basis1D(degree, float(xj), 0, kv), dtype=float).reshape(-1)
            for i in range(degree + 1):
                h.holds(f"N_{i}(node {j} of element {el}) = delta", abs(float(N[i]) - (1.0 if i == j else 0.0)) <= 1e-12)


def deriv(h, degree=2, nel=2, seed=0):
    """LagrangeBasis.deriv is the derivative of LagrangeBasis.__call__ (xi strictly inside an element)"""
    from cardillo.rods.discretization.lagrange import LagrangeBasis, LagrangeKnotVector
    kv = LagrangeKnotVector(degree, nel)
    el = nel - 1
    lo, hi = kv.element_interval(el)
    b = LagrangeBasis(degree, interval=[lo, hi])
    xi = h.real("xi")
    h.assume(xi > float(lo), "inside")
    h.assume(xi < float(hi), "inside")
    d = h.D(lambda x_: b(x_)[0], (xi,), (1.0,))
    h.eq("deriv = d/dxi basis", d, b.deriv(xi)[0], tol=1e-9)


def quadrature(h, rule="gauss", n=2):
    from cardillo.rods.discretization.gauss import gauss, lobatto
    a, b = h.real("a"), h.real("b")
    h.assume(a >= -2.0, "a >= -2")
    h.assume(b <= 2.0, "b <= 2")
    h.assume(a < b, "a < b")
    f = gauss if rule == "gauss" else lobatto
    try:
        pts, wts = f(n, interval=h.arr([a, b]))
    except TypeError as e:
        if "C boundary" not in str(e):
            raise
        # the rule evaluates third-party (numpy Legendre) code at interval-dependent points: not encodable with a symbolic interval.
        # Decide the clauses on a concrete non-symmetric interval instead (the model is pinned to it, so the replay runs the same instance).
        a0, b0 = 0.25, 1.0
        h.assume_eq(a, a0, "interval concretised")
        h.assume_eq(b, b0, "interval concretised")
        h.note("symbolic interval reached a C boundary: interval concretised to [0.25, 1]")
        a, b = a0, b0
        pts, wts = f(n, interval=np.array([a0, b0]))
    kmax = 2 * n - 1 if rule == "gauss" else 2 * n - 3
    tol = 1e-10 if kmax <= 7 else 1e-8
    h.eq("weights sum to the interval length", sum(wts[i] for i in range(n)), b - a, tol=tol)
    for k in range(kmax + 1):
        num = sum(wts[i] * pts[i] ** k for i in range(n))
        exact = (b ** (k + 1) - a ** (k + 1)) / (k + 1)
        h.eq(f"integrates x^{k} exactly", num, exact, tol=tol)
    for i in range(n):
        h.le(f"node {i} >= a", a - 1e-12, pts[i])
        h.le(f"node {i} <= b", pts[i], b + 1e-12)
        h.le(f"weight {i} > 0", 0.0, wts[i], strict=True)


def _connectivity_table(h, m, tab, dim_q, nq, elDOF, nodalDOF, nodalDOF_element, degree, nel, disc):
    # a global vector of distinct labels gathered through elDOF / nodalDOF_element
    labels = np.arange(nq)
    node_of = {}
    for nd in range(m.nnodes):
        for c in range(dim_q):
            node_of[int(nodalDOF[nd, c])] = (nd, c)
    h.holds(f"{tab}: nodalDOF is a bijection onto the coordinates", len(node_of) == nq and sorted(node_of) == list(range(nq)))
    el_nodes = []
    for el in range(nel):
        ok_idx = bool(np.all(elDOF[el] >= 0) and np.all(elDOF[el] < nq))
        h.holds(f"{tab}: element {el} indices inside the global range", ok_idx)
        if not ok_idx:
            return
        qe = labels[elDOF[el]]
        nodes = []
        for ln in range(m.nnodes_per_element):
            comp = [node_of[int(qe[d])] for d in nodalDOF_element[ln]]
            h.holds(f"{tab}: element {el} local node {ln}: all components belong to one global node, in order",
                    len({c[0] for c in comp}) == 1 and [c[1] for c in comp] == list(range(dim_q)))
            nodes.append(comp[0][0])
        h.holds(f"{tab}: element {el}: nodes consecutive", nodes == list(range(nodes[0], nodes[0] + degree + 1)))
        el_nodes.append(nodes)
    for el in range(nel - 1):
        shared = set(el_nodes[el]) & set(el_nodes[el + 1])
        if disc:
            h.holds(f"{tab}: discontinuous mesh: elements {el},{el+1} share no node", len(shared) == 0)
        else:
            h.holds(f"{tab}: elements {el},{el+1} share exactly their boundary node", shared == {el_nodes[el][-1]} and el_nodes[el][-1] == el_nodes[el + 1][0])
    for el in range(nel):
        for el2 in range(el + 2, nel):
            h.holds(f"{tab}: elements {el},{el2} share nothing", not (set(el_nodes[el]) & set(el_nodes[el2])))
    h.holds(f"{tab}: every node belongs to an element", set(sum(el_nodes, [])) == set(range(m.nnodes)))


def connectivity(h, degree=2, nel=3, dim_q=3, disc=False):
    from cardillo.rods.discretization.lagrange import LagrangeKnotVector
    from cardillo.rods.discretization.mesh1D import Mesh1D
    kv = LagrangeKnotVector(degree, nel)
    dim_u = dim_q - 1            # (quaternion rods: 7 coordinates / 6 velocities per node) the two tables differ
    m = Mesh1D(kv, degree, dim_q, derivative_order=1, basis="Lagrange_Disc" if disc else "Lagrange", dim_u=dim_u)
    for tab, dim, nqu, elDOF, nodalDOF, nodalDOF_element in (("coordinates", dim_q, m.nq, m.elDOF, m.nodalDOF, m.nodalDOF_element),
                                                             ("velocities", dim_u, m.nu, m.elDOF_u, m.nodalDOF_u, m.nodalDOF_element_u)):
        _connectivity_table(h, m, tab, dim, nqu, elDOF, nodalDOF, nodalDOF_element, degree, nel, disc)
    # quadrature points lie in their element, shape functions at them form a partition of unity
    for el in range(nel):
        lo, hi = kv.element_interval(el)
        h.holds(f"quadrature points of element {el} inside it", bool(np.all(m.qp[el] >= lo) and np.all(m.qp[el] <= hi)))
        h.holds(f"shape functions at the quadrature points of element {el} sum to one", bool(np.allclose(np.sum(m.N[el], axis=1), 1.0, atol=1e-12)))
        h.holds(f"weights of element {el} sum to its length", bool(abs(np.sum(m.wp[el]) - (hi - lo)) <= 1e-12))


def cases(tier, seed):
    T = 60 if tier == "quick" else 300
    cs = []
    degs = (1, 2, 3) if tier == "quick" else (1, 2, 3, 4, 5)
    nels = (1, 2, 3, 4) if tier == "quick" else tuple(range(1, 13))
    for p in degs:
        for nel in nels:
            cs.append(Case(f"basis/p{p}/nel{nel}", basis, dict(degree=p, nel=nel, seed=seed), timeout=T, max_paths=200, max_depth=200))
            cs.append(Case(f"kronecker/p{p}/nel{nel}", kronecker, dict(degree=p, nel=nel, seed=seed), timeout=T, sentinel=False))
            cs.append(Case(f"connectivity/p{p}/nel{nel}", connectivity, dict(degree=p, nel=nel), timeout=T, sentinel=False))
            cs.append(Case(f"connectivity_disc/p{p}/nel{nel}", connectivity, dict(degree=p, nel=nel, dim_q=2, disc=True), timeout=T, sentinel=False))
        cs.append(Case(f"deriv/p{p}", deriv, dict(degree=p, nel=2, seed=seed), timeout=T))
    for nel in nels:
        if nel > 1:
            cs.append(Case(f"basis/p1/nel{nel}/nonuniform", basis, dict(degree=1, nel=nel, nonuniform=True, seed=seed), timeout=T, max_paths=200, max_depth=200))
            cs.append(Case(f"kronecker/p1/nel{nel}/nonuniform", kronecker, dict(degree=1, nel=nel, nonuniform=True, seed=seed), timeout=T, sentinel=False))
    # one-sided evaluation at element boundaries, in either order, through the memoised Mesh1D.eval_basis (harness of C26)
    import itertools
    from checks import c26
    for k in (1, 2):
        for ea, eb in itertools.permutations((k - 1, k, None), 2):
            cs.append(Case(f"one_sided/knot{k}/el={ea}-then-{eb}", c26.mesh, dict(knot=(k, ea, eb), seed=seed), timeout=T, sentinel=False))
    for n in ((1, 2, 3, 4) if tier == "quick" else (1, 2, 3, 4, 5, 6)):
        cs.append(Case(f"gauss/n{n}", quadrature, dict(rule="gauss", n=n), timeout=T))
    for n in ((2, 3, 4, 5) if tier == "quick" else (2, 3, 4, 5, 6, 7)):
        cs.append(Case(f"lobatto/n{n}", quadrature, dict(rule="lobatto", n=n), timeout=T))
    return cs
