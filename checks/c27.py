"""C27 Contact proximal maps are exact projections."""
import numpy as np
from symx.run import Case

PROPERTY = "C27"
META = dict(
    level="proof",
    bounds="vector dimension n in {1,2} (quick) / {1,2,3} (thorough); all real x, x', y, any sign of z, friction coefficient mu >= 0, rho > 0; "
           "estimate_prox_parameter: nu in {1,2,3}, one or two force directions, M = L L^T, det(W^T W) != 0, alpha > 0, exact inverse for the linear solve.",
    assumptions=["mu >= 0, rho > 0", "norms are sqrt atoms r >= 0, r^2 = x.x", "Jacobian clause: strictly inside / outside the active set (the branch taken by the code)",
                 "estimate_prox_parameter: spsolve modelled by the exact (Cramer) inverse of the symbolic M"],
    trusted_base=["Cramer-rule shim standing in for scipy spsolve on matrices up to 3x3"],
)


def orthant(h, n=2):
    from cardillo.math.prox import NegativeOrthant
    x, x2, y = h.vec("x", n), h.vec("xx", n), h.vec("y", n)
    p = NegativeOrthant.prox(x)
    p2 = NegativeOrthant.prox(x2)
    h.le("feasible: prox(x) <= 0", p, 0.0)
    h.eq("idempotent", NegativeOrthant.prox(p), p)
    for i in range(n):
        h.assume(y[i] <= 0, "y in C")
    h.le("projection inequality (x-p).(y-p) <= 0", (x - p) @ (y - p), 0.0)
    h.le("non-expansive", (p - p2) @ (p - p2), (x - x2) @ (x - x2))
    h.eq("fixes points of C", NegativeOrthant.prox(y), y)
    # active set / residual: zero residual <=> complementarity  x <= 0... stated as: residual = x on the active set, y else
    rho = h.pos("rho")
    act = NegativeOrthant.active_set(x, x2, rho)
    res = NegativeOrthant.residual(x, x2, act)
    for i in range(n):
        # residual_i = 0  <=>  x2_i = -prox_C(rho x_i - x2_i) (the implicit form of the normal cone inclusion)
        impl = x2[i] + NegativeOrthant.prox((rho * x - x2)[i:i + 1])[0]
        h.holds(f"residual zero iff implicit equation zero [{i}]", (res[i] == 0) == (impl == 0) if not h.sym else _iff(res[i] == 0, impl == 0))


def _iff(a, b):
    import z3
    from symx.core import B
    a = a.t if isinstance(a, B) else z3.BoolVal(bool(a))
    b = b.t if isinstance(b, B) else z3.BoolVal(bool(b))
    return a == b


def ball(h, n=2, clause="basic"):
    from cardillo.math.prox import Sphere
    mu = h.nonneg("mu")
    sp = Sphere(mu)
    z = h.real("z")
    x = h.vec("x", n)
    if clause == "degenerate":
        h.assume(z <= 0, "z <= 0")
    p = sp.prox(x, z)
    R = mu * z
    if clause == "basic":
        rad2 = _rad2(h, R)
        h.le("feasible |p|^2 <= max(0, mu z)^2", p @ p, rad2)
        h.eq("idempotent", sp.prox(p, z), p)
        y = h.vec("y", n)
        h.assume(y @ y <= rad2, "y in C")
        h.le("projection inequality (x-p).(y-p) <= 0", (x - p) @ (y - p), 0.0)
        h.eq("fixes points of C", sp.prox(y, z), y)
    elif clause == "degenerate":
        h.eq("degenerate ball: p = 0", p, np.zeros(n))
    elif clause == "nonexpansive":
        x2 = h.vec("xx", n)
        p2 = sp.prox(x2, z)
        h.le("non-expansive", (p - p2) @ (p - p2), (x - x2) @ (x - x2))


def _rad2(h, R):
    if h.sym:
        from symx import symnp
        m = symnp.maximum(0.0, R)
        return m * m
    m = max(0.0, R)
    return m * m


def ball_jac(h, n=2):
    from cardillo.math.prox import Sphere
    mu = h.nonneg("mu")
    sp = Sphere(mu)
    z = h.arr([h.real("z")])
    x, y = h.vec("x", n), h.vec("y", n)
    rho = h.pos("rho")
    dx, dy, dz = h.vec("dx", n), h.vec("dy", n), h.vec("dz", 1)
    act = sp.active_set(x, y, z[0], rho)
    Jx, Jy, Jz = sp.Jacobian(x, y, z, rho, act)
    f = lambda x_, y_, z_: sp.residual(x_, y_, z_[0], rho, act)
    h.eq("Jacobian wrt x", h.D(lambda x_: f(x_, y, z), (x,), (dx,)), Jx @ dx)
    h.eq("Jacobian wrt y", h.D(lambda y_: f(x, y_, z), (y,), (dy,)), Jy @ dy)
    h.eq("Jacobian wrt z", h.D(lambda z_: f(x, y, z_), (z,), (dz,)), Jz @ dz)
    # the residual vanishes exactly when y = -prox(rho x - y): the implicit form of the normal cone inclusion
    impl = y + sp.prox(rho * x - y, z[0])
    res = sp.residual(x, y, z[0], rho, act)
    if not act:
        h.eq("residual = y + prox(rho x - y) outside the active set", res, impl)


def prox_param(h, nu=2, nc=1):
    from cardillo.math.prox import estimate_prox_parameter
    if h.sym:
        from symx import shims
        shims.LU_MODE[0] = "cramer"
    alpha = h.pos("alpha")
    L = np.zeros((nu, nu), dtype=object if h.sym else float)
    for i in range(nu):
        for j in range(i + 1):
            L[i, j] = h.pos(f"L{i}{j}") if i == j else h.real(f"L{i}{j}")
    M = L @ L.T
    W = h.mat("W", nu, nc)
    G = W.T @ W
    detG = G[0, 0] if nc == 1 else G[0, 0] * G[1, 1] - G[0, 1] * G[1, 0]
    h.assume(detG != 0 if h.sym else abs(detG) > 0, "W has full column rank")
    r = estimate_prox_parameter(alpha, W, M)
    h.holds("one parameter per force direction", len(r) == nc)
    h.le("r_i > 0", 0.0, r, strict=True)
    # r_i = alpha / (W^T M^-1 W)_ii
    Minv = np.linalg.inv(M.astype(float)) if not h.sym else None
    if h.sym:
        from symx import symnp
        Minv = symnp._inv(M)
    Gd = np.array([(W[:, i] @ Minv @ W[:, i]) for i in range(nc)], dtype=object if h.sym else float)
    h.eq("r_i * G_ii = alpha", r * Gd, alpha * np.ones(nc))


def cases(tier, seed):
    T = 60 if tier == "quick" else 600
    dims = (1, 2) if tier == "quick" else (1, 2, 3)
    cs = []
    for n in dims:
        cs.append(Case(f"orthant/n{n}", orthant, dict(n=n), timeout=T))
        for cl in ("basic", "degenerate", "nonexpansive"):
            cs.append(Case(f"ball/{cl}/n{n}", ball, dict(n=n, clause=cl), timeout=max(T, 300)))
        cs.append(Case(f"ball/jacobian/n{n}", ball_jac, dict(n=n), timeout=T))
    for nu, nc in ((1, 1), (2, 1), (2, 2), (3, 1)) + (((3, 2),) if tier == "thorough" else ()):
        cs.append(Case(f"prox_param/nu{nu}nc{nc}", prox_param, dict(nu=nu, nc=nc), timeout=T))
    return cs
