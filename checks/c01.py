"""C01 Quaternion rotation kernel is algebraically exact."""
import numpy as np
from symx.run import Case

PROPERTY = "C01"
META = dict(
    level="proof",
    bounds="none on values: every clause is decided for all real P (P.P != 0), Q, omega, a, b, scale s != 0, "
           "direction dP; normalize in {True, False (on unit quaternions given in stereographic coordinates)}; "
           "LeviCivita3 over all 27 index triples (finite, enumerated).",
    assumptions=["P.P != 0 (quaternion nonzero)", "every denominator met on the path is nonzero (here only P.P and s)",
                 "unit quaternions for normalize=False are given as P=(1-|x|^2, 2x)/(1+|x|^2), x in R^3 (all unit quaternions except (-1,0,0,0))"],
    trusted_base=[],
)


def _unit(h, name):
    x = h.vec(name, 3)
    n2 = x @ x
    return np.array([(1 - n2) / (1 + n2), *(2 * x / (1 + n2))], dtype=object if h.sym else float)


def rot_basic(h, normalize=True):
    from cardillo.math import Exp_SO3_quat, quatprod
    eye = np.eye(3)
    if normalize:
        P = h.quat("P")
        Qq = h.quat("Q")
    else:
        P = _unit(h, "x")
        Qq = _unit(h, "y")
    A = Exp_SO3_quat(P, normalize=normalize)
    h.eq("orthonormal A A^T = I", A @ A.T, eye)
    h.eq("orthonormal A^T A = I", A.T @ A, eye)
    det = (A[0, 0] * (A[1, 1] * A[2, 2] - A[1, 2] * A[2, 1]) - A[0, 1] * (A[1, 0] * A[2, 2] - A[1, 2] * A[2, 0])
           + A[0, 2] * (A[1, 0] * A[2, 1] - A[1, 1] * A[2, 0]))
    h.eq("det A = 1", det, 1.0)
    if normalize:
        s = h.real("s")
        h.assume(s != 0, "s != 0")
        h.eq("scale invariance A(sP) = A(P)", Exp_SO3_quat(s * P), A)
        # also at a fixed tiny and a fixed huge scale (exactly representable factors): a change that is only visible for very short /
        # very long quaternions then has a counterexample the float replay can reproduce
        h.eq("scale invariance at the scale 2^-27", Exp_SO3_quat(2.0 ** -27 * P), A)
        h.eq("scale invariance at the scale 2^27", Exp_SO3_quat(2.0 ** 27 * P), A)
        # the normalising variant composes like the quaternion product for any lengths
        h.eq("composition A(P*Q) = A(P) A(Q)", Exp_SO3_quat(quatprod(P, Qq)), A @ Exp_SO3_quat(Qq))
    else:
        PQ = quatprod(P, Qq)
        h.eq("unit product stays unit", PQ @ PQ, 1.0)
        h.eq("composition A(P*Q) = A(P) A(Q)", Exp_SO3_quat(PQ, normalize=False), A @ Exp_SO3_quat(Qq, normalize=False))
        h.eq("normalize variants agree on unit quaternions", Exp_SO3_quat(P, normalize=True), A)


def tangent_maps(h, normalize=True):
    from cardillo.math import Exp_SO3_quat, T_SO3_quat, T_SO3_inv_quat, skew2ax
    P = h.quat("P") if normalize else _unit(h, "x")
    om = h.vec("om", 3)
    T = T_SO3_quat(P, normalize=normalize)
    Ti = T_SO3_inv_quat(P, normalize=normalize)
    h.eq("T_SO3_quat @ T_SO3_inv_quat = I3", T @ Ti, np.eye(3))
    # quaternion rate from angular velocity through the inverse tangent map -> body-fixed spin
    P_dot = Ti @ om
    A = Exp_SO3_quat(P, normalize=normalize)
    if normalize:
        A_dot = h.D(lambda p: Exp_SO3_quat(p, normalize=True), (P,), (P_dot,))
        h.eq("spin skew2ax(A^T A_dot) = omega", skew2ax(A.T @ A_dot), om)
        W = A.T @ A_dot
        h.eq("A^T A_dot skew", W + W.T, np.zeros((3, 3)))
        h.eq("T_SO3_quat P_dot = omega", T @ P_dot, om)
        h.eq("length kept: P . P_dot = 0", P @ P_dot, 0.0)
    else:
        # on the unit sphere: move along P_dot (tangent to the sphere), compare with the normalising map
        A_dot = h.D(lambda p: Exp_SO3_quat(p, normalize=True), (P,), (P_dot,))
        h.eq("spin skew2ax(A^T A_dot) = omega", skew2ax(A.T @ A_dot), om)
        h.eq("T_SO3_quat P_dot = omega", T @ P_dot, om)


def derivatives(h, normalize=True, k=None):
    from cardillo.math import Exp_SO3_quat, Exp_SO3_quat_P, T_SO3_quat, T_SO3_quat_P, T_SO3_inv_quat, T_SO3_inv_quat_P
    P = h.quat("P")
    if k is None:
        dP = h.vec("dP", 4)
    else:
        dP = np.eye(4)[k]
    h.eq("Exp_SO3_quat_P", h.D(lambda p: Exp_SO3_quat(p, normalize=normalize), (P,), (dP,)), Exp_SO3_quat_P(P, normalize=normalize) @ dP)
    h.eq("T_SO3_quat_P", h.D(lambda p: T_SO3_quat(p, normalize=normalize), (P,), (dP,)), T_SO3_quat_P(P, normalize=normalize) @ dP)
    h.eq("T_SO3_inv_quat_P", h.D(lambda p: T_SO3_inv_quat(p, normalize=normalize), (P,), (dP,)), T_SO3_inv_quat_P(P, normalize=normalize) @ dP)


def dtype_independence(h):
    """whole-number quaternions / vectors typed without a decimal point (integer dtype): a routine either refuses them loudly (TypeError, as the
    in-place normalisation of Exp_SO3_quat does) or returns what it returns for the same values as floats - never a silently truncated result"""
    import cardillo.math as cm
    Ps = [np.array(v) for v in ([1, 1, 0, 0], [2, -1, 3, 1], [0, 0, 0, 1], [1, 0, 0, 0], [-3, 2, 1, 2])]
    names = ["Exp_SO3_quat", "Exp_SO3_quat_P", "T_SO3_quat", "T_SO3_inv_quat", "T_SO3_quat_P", "T_SO3_inv_quat_P"]
    for nm in names:
        f = getattr(cm, nm, None)
        if f is None:
            continue
        for P in Ps:
            assert P.dtype.kind == "i"
            try:
                got = f(P)
            except (NotImplementedError, TypeError):
                continue
            h.eq(f"{nm}: integer-typed quaternion {P.tolist()} gives the float result", np.asarray(got, dtype=float), np.asarray(f(P.astype(float)), dtype=float))
    a, b = np.array([1, -2, 3]), np.array([2, 0, -1])
    def same(name, f, *args):
        try:
            got = f(*args)
        except TypeError:
            return
        h.eq(name, np.asarray(got, dtype=float), np.asarray(f(*[x.astype(float) for x in args]), dtype=float))
    for nm in ("ax2skew", "ax2skew_squared"):
        same(f"{nm}: integer-typed vector", getattr(cm, nm), a)
    same("cross3: integer-typed vectors", cm.cross3, a, b)
    same("quatprod: integer-typed quaternions", cm.quatprod, Ps[1], Ps[4])


def algebra(h):
    from cardillo.math import ax2skew, ax2skew_squared, skew2ax, cross3, ax2skew_a, skew2ax_A, LeviCivita3
    a = h.vec("a", 3)
    b = h.vec("b", 3)
    da = h.vec("da", 3)
    h.eq("ax2skew(a) b = cross3(a,b)", ax2skew(a) @ b, cross3(a, b))
    h.eq("cross3 antisymmetric", cross3(a, b), -cross3(b, a))
    h.eq("cross3 orthogonal to a", cross3(a, b) @ a, 0.0)
    h.eq("ax2skew_squared = ax2skew^2", ax2skew_squared(a), ax2skew(a) @ ax2skew(a))
    h.eq("skew2ax(ax2skew(a)) = a", skew2ax(ax2skew(a)), a)
    h.eq("ax2skew skew", ax2skew(a) + ax2skew(a).T, np.zeros((3, 3)))
    h.eq("ax2skew_a", h.D(ax2skew, (a,), (da,)), ax2skew_a() @ da)
    M = h.mat("M", 3, 3)
    dM = h.mat("dM", 3, 3)
    h.eq("skew2ax_A", h.D(skew2ax, (M,), (dM,)), np.einsum("ijk,jk->i", skew2ax_A(), dM))
    # Levi-Civita: all 27 triples against the determinant of the permutation matrix
    E = np.eye(3)
    for i in range(3):
        for j in range(3):
            for k in range(3):
                ref = float(np.round(np.linalg.det(np.array([E[i], E[j], E[k]]))))
                h.holds(f"LeviCivita3({i},{j},{k})", LeviCivita3(i, j, k) == ref)
    # epsilon contraction gives the cross product for symbolic vectors
    c = np.array([sum(LeviCivita3(i, j, k) * a[j] * b[k] for j in range(3) for k in range(3)) for i in range(3)], dtype=object if h.sym else float)
    h.eq("eps_ijk a_j b_k = cross3", c, cross3(a, b))


def cases(tier, seed):
    cs = [
        Case("rot_basic/normalize", rot_basic, dict(normalize=True), timeout=60),
        Case("rot_basic/unit", rot_basic, dict(normalize=False), timeout=120),
        Case("tangent/normalize", tangent_maps, dict(normalize=True), timeout=60),
        Case("tangent/unit", tangent_maps, dict(normalize=False), timeout=120),
        Case("deriv/normalize", derivatives, dict(normalize=True), timeout=60),
        Case("deriv/nonormalize", derivatives, dict(normalize=False), timeout=60),
        Case("algebra", algebra, {}, timeout=30),
        Case("dtype_independence", dtype_independence, {}, timeout=30, patch=False, sentinel=False, crosscheck=False),
    ]
    return cs
