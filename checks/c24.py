"""C24 Restart: re-initialising a system does not change the model it describes."""
import numpy as np
from symx.run import Case
from checks import lib

PROPERTY = "C24"
META = dict(
    level="proof",
    bounds="model preservation under System.deepcopy + set_new_initial_state on grid systems {rigid body - Revolute - rigid body / frame with explicit joint "
           "placement and a rotational spring; rigid body - Spherical - rigid body; point mass and rigid body on a plane + sphere-sphere contact}: the copy is "
           "re-initialised at a SYMBOLIC consistent state (joint angle by its Weierstrass symbol, free pose of the first body) and every model function "
           "(g, g_dot, W_g, spring force / energy, joint angle incl. the tracked turns, g_N, gamma_F) of the copy is compared with the original's at an "
           "arbitrary second symbolic state; no exception on any path.  Outside: the trajectory-equality clause ('same trajectory up to solver tolerance') "
           "needs whole simulations; it follows from model preservation for one-step methods whose state is (t, q, u) (argued, not decided).",
    assumptions=["restart state on the joint manifold", "quaternions nonzero"],
    trusted_base=[],
)


def revolute_restart(h, first="RB", axis=2, seed=0):
    from cardillo.force_laws import Spring
    from cardillo.solver import SolverOptions
    h.option("arctan_hints", False)
    k = h.pos("k")

    def extra(rp):
        from cardillo.force_laws import MaxwellElement
        # explicit reference angle ZERO (a falsy value that is not None) and an element with a coordinate but no velocity of its own
        rp.el = Spring(rp.joint, k, l_ref=0.0, compliance_form=False, name="rot_spring")
        rp.mx = MaxwellElement(rp.joint, 2.0, 1.5, l_ref=0.0, name="maxwell")
        return [rp.el, rp.mx]
    rp = lib.RevolutePair(h, seed=seed, axis=axis, first=first, extra=extra, angle0=0.5)
    opts = SolverOptions(compute_consistent_initial_conditions=False)
    sysm = rp.sysm
    with h.capture():
        sysm.assemble(options=opts)
    # restart state: on the joint manifold
    t1, q1, u1, phi1, phid1 = rp.state(prefix="s_", concrete_orientation=True)
    ld1 = h.real("s_ld")                     # damper elongation of the Maxwell element reached at the restart time
    q1 = np.concatenate([q1, h.arr([ld1])])
    copy = h.call("deepcopy + set_new_initial_state succeed", _restart, sysm, q1, u1, t1, opts)
    if copy is None:
        return
    # (rigid bodies store the normalised quaternion: compared through the model functions below; coordinates of force elements are taken as given)
    from cardillo.discrete import RigidBody
    for c in copy.contributions:
        if hasattr(c, "my_qDOF") and len(getattr(c, "my_qDOF", [])) and not isinstance(c, RigidBody):
            h.eq(f"restart state handed to {c.name}", np.atleast_1d(c.q0), q1[c.my_qDOF])
            h.eq(f"system initial state carries the restart coordinates of {c.name}", copy.q0[c.my_qDOF], q1[c.my_qDOF])
    h.eq("explicit reference angle of the spring unchanged by re-initialisation", copy.contributions_map["rot_spring"].l_ref, 0.0)
    h.eq("explicit reference angle of the Maxwell element unchanged by re-initialisation", copy.contributions_map["maxwell"].l_ref, 0.0)
    j0 = rp.joint
    j1 = copy.contributions_map["rev"]
    e0, e1 = rp.el, copy.contributions_map["rot_spring"]
    # arbitrary evaluation state (second symbolic on-manifold configuration, free velocities)
    t, q, u_on, phi, phid = rp.state(prefix="e_", concrete_orientation=True)
    u = h.vec("u", sysm.nu)
    qJ, uJ = j0.qDOF, j0.uDOF
    h.eq("g unchanged by re-initialisation", j1.g(t, q[qJ]), j0.g(t, q[qJ]))
    h.eq("g_dot unchanged by re-initialisation", j1.g_dot(t, q[qJ], u[uJ]), j0.g_dot(t, q[qJ], u[uJ]))
    h.eq("W_g unchanged by re-initialisation", j1.W_g(t, q[qJ]), j0.W_g(t, q[qJ]))
    h.eq("joint angle rate unchanged", j1.l_dot(t, q[qJ], u[uJ]), j0.l_dot(t, q[qJ], u[uJ]))
    # joint angle incl. tracked turns: the original has tracked n turns when it reaches the restart state
    n = h.real("n")
    if h.sym:
        import z3
        from symx import core
        kk = z3.Int("k_turns")
        core.CTX.assumes += [core.term(n.v.n) == z3.ToReal(kk)]
    else:
        h.assume(abs(n - round(n)) < 1e-12, "n integer")
    Q1 = _quadrant_of(h, j0, t1, q1[qJ])
    j0.n_full_rotations, j0.previous_quadrant = n, Q1
    copy2 = h.call("deepcopy + set_new_initial_state succeed (running system)", _restart, sysm, q1, u1, t1, opts)
    if copy2 is None:
        return
    j2 = copy2.contributions_map["rev"]
    a0 = j0.l(t1, q1[qJ])
    a2 = j2.l(t1, q1[qJ])
    h.eq("joint angle at the restart state keeps its accumulated turns", a2, a0, tol=1e-9)
    e2 = copy2.contributions_map["rot_spring"]
    j0.n_full_rotations, j0.previous_quadrant = n, Q1
    h.eq("spring energy at the restart state unchanged", e2.E_pot(t1, q1[e2.qDOF]), e0.E_pot(t1, q1[e0.qDOF]), tol=1e-9)


def spherical_restart(h, seed=0):
    """rigid body - Spherical - rigid body (both moving): the joint keeps connecting the same material points after re-initialisation"""
    from cardillo import System
    from cardillo.discrete import RigidBody
    from cardillo.constraints import Spherical
    from cardillo.math import Exp_SO3_quat
    from cardillo.solver import SolverOptions
    e0 = np.array([1.0, 0, 0, 0])
    r_a0, r_b0, r_J0 = np.array([0.25, 0.0, 0.5]), np.array([1.0, 0.5, 0.25]), np.array([0.5, 0.25, 0.5])
    a = RigidBody(1.5, np.diag([1.0, 2.0, 3.0]), q0=np.concatenate([r_a0, e0]), name="a")
    b = RigidBody(2.0, np.diag([2.0, 1.0, 1.5]), q0=np.concatenate([r_b0, e0]), name="b")
    j0 = Spherical(a, b, r_OJ0=r_J0, name="sph")
    sysm = System()
    sysm.add(a, b, j0)
    opts = SolverOptions(compute_consistent_initial_conditions=False)
    with h.capture():
        sysm.assemble(options=opts)
    # restart state on the joint manifold: first body free, second body's orientation free, its position closes the joint
    r1, P1, P2 = h.vec("s_r1", 3), h.quat("s_P1"), h.quat("s_P2")
    A1, A2 = Exp_SO3_quat(P1), Exp_SO3_quat(P2)
    r2 = r1 + A1 @ (r_J0 - r_a0) - A2 @ (r_J0 - r_b0)
    q1 = np.concatenate([r1, P1, r2, P2])
    u1 = h.vec("s_u", sysm.nu)
    copy = h.call("deepcopy + set_new_initial_state succeed", _restart, sysm, q1, u1, h.real("s_t"), opts)
    if copy is None:
        return
    j1 = copy.contributions_map["sph"]
    t, q, u = h.real("t"), h.vec("q", sysm.nq), h.vec("u", sysm.nu)
    h.assume(q[3:7] @ q[3:7] > 0, "quaternion nonzero")
    h.assume(q[10:14] @ q[10:14] > 0, "quaternion nonzero")
    qJ, uJ = j0.qDOF, j0.uDOF
    h.eq("g unchanged by re-initialisation", j1.g(t, q[qJ]), j0.g(t, q[qJ]))
    h.eq("g_dot unchanged by re-initialisation", j1.g_dot(t, q[qJ], u[uJ]), j0.g_dot(t, q[qJ], u[uJ]))
    h.eq("W_g unchanged by re-initialisation", j1.W_g(t, q[qJ]), j0.W_g(t, q[qJ]))
    h.eq("the restart state satisfies the joint", j1.g(h.real("s_t"), q1[qJ]), np.zeros(3))


def _quadrant_of(h, j, t, q):
    """quadrant of the joint angle at (t, q) computed by the joint's own routine on a scratch tracking state"""
    n0, p0 = j.n_full_rotations, j.previous_quadrant
    j.l(t, q)
    Q = j.previous_quadrant
    j.n_full_rotations, j.previous_quadrant = n0, p0
    return Q


def _restart(sysm, q1, u1, t1, opts):
    copy = sysm.deepcopy()
    qq = np.asarray(sysm.q0).copy().astype(object) if np.asarray(q1).dtype == object else np.asarray(sysm.q0, dtype=float).copy()
    uu = np.asarray(sysm.u0).copy().astype(object) if np.asarray(u1).dtype == object else np.asarray(sysm.u0, dtype=float).copy()
    qq[: len(q1)] = q1
    uu[: len(u1)] = u1
    copy.set_new_initial_state(qq, uu, t1, options=opts)
    return copy


def contacts_restart(h, seed=0):
    from cardillo import System
    from cardillo.discrete import Frame
    from cardillo.contacts import Sphere2Plane, Sphere2Sphere
    from cardillo.solver import SolverOptions
    rng = np.random.default_rng(seed + 77)
    a, pm, pm2 = lib.make_rb(rng, "a"), lib.make_pm(rng, "pm"), lib.make_pm(rng, "pm2")
    fr = Frame(name="plane")
    c1 = Sphere2Plane(fr, a, mu=0.3, r=0.25, e_N=0.5, B_r_CP=np.array([0.25, 0.0, 0.125]), name="c1")
    c2 = Sphere2Sphere(pm, pm2, 0.25, 0.5, 0.2, name="c2")
    sysm = System()
    sysm.add(a, pm, pm2, fr, c1, c2)
    opts = SolverOptions(compute_consistent_initial_conditions=False)
    with h.capture():
        sysm.assemble(options=opts)
    q1 = h.vec("s_q", sysm.nq)
    h.assume(q1[3:7] @ q1[3:7] > 0, "quaternion nonzero")
    u1 = h.vec("s_u", sysm.nu)
    copy = h.call("deepcopy + set_new_initial_state succeed with contacts", _restart, sysm, q1, u1, h.real("s_t"), opts)
    if copy is None:
        return
    t, q, u = h.real("t"), h.vec("q", sysm.nq), h.vec("u", sysm.nu)
    h.assume(q[3:7] @ q[3:7] > 0, "quaternion nonzero")
    d1 = copy.contributions_map["c1"]
    h.eq("sphere-plane gap unchanged", d1.g_N(t, q[c1.qDOF]), c1.g_N(t, q[c1.qDOF]))
    h.eq("sphere-plane slip velocity unchanged", d1.gamma_F(t, q[c1.qDOF], u[c1.uDOF]), c1.gamma_F(t, q[c1.qDOF], u[c1.uDOF]))
    d2 = copy.contributions_map["c2"]
    h.eq("sphere-sphere gap unchanged", d2.g_N(t, q[c2.qDOF]), c2.g_N(t, q[c2.qDOF]))
    h.holds("layout unchanged", (copy.nq, copy.nu, copy.nla_N, copy.nla_F) == (sysm.nq, sysm.nu, sysm.nla_N, sysm.nla_F))


def cases(tier, seed):
    T = 120 if tier == "quick" else 600
    cs = []
    for first in ("F", "RB"):
        for axis in (((seed + 1) % 3,) if tier == "quick" else (0, 1, 2)):
            cs.append(Case(f"revolute/{first}/ax{axis}", revolute_restart, dict(first=first, axis=axis, seed=seed), timeout=T, hard=T * 10, max_paths=64))
    cs.append(Case("contacts", contacts_restart, dict(seed=seed), timeout=T))
    cs.append(Case("spherical/RB-RB", spherical_restart, dict(seed=seed), timeout=T, hard=T * 10))
    return cs
