"""C02 Rotation charts invert each other on their whole domain."""
import numpy as np
from symx.run import Case

PROPERTY = "C02"
META = dict(
    level="proof",
    bounds="rotation vectors psi = lam (2p, 2q, +-(1 - p^2 - q^2)), lam >= 0 (every psi; the mirrored chart covers the negative z axis), "
           "|psi| = lam (1 + p^2 + q^2); angle by the Weierstrass symbol w = tan(angle/2): chart [0, pi) (w >= 0) and chart (pi, 2 pi) (w < 0); "
           "Log(Exp psi) for |psi| < np.pi (the double); rotation matrices as Exp_SO3_quat(P), P != 0, for Spurrier (all 4 argmax outcomes incl. ties); "
           "screws h = (r, psi), r free.  Outside: rounding distance of a half-turn (IEEE semantics of arccos/sqrt); |psi| in [np.pi, pi).",
    assumptions=["sin/cos/tan(a/2) are the rational functions of a free real w (no relation between a and w except the sign/zero facts of the chart)",
                 "sqrt(psi.psi) = lam(1+p^2+q^2) and sqrt(1-cos^2 a) = sin a on [0, pi] are solver-checked hints, arccos(cos a) = a on [0, pi] is a solver-checked hint",
                 "PI in (3.14159265358979323, 3.14159265358979324); np.pi is the double"],
    trusted_base=["Weierstrass and cone parametrisations (DESIGN 2.4)", "surjectivity of P -> Exp_SO3_quat(P) onto SO(3)"],
)


def _det(A):
    return (A[0, 0] * (A[1, 1] * A[2, 2] - A[1, 2] * A[2, 1]) - A[0, 1] * (A[1, 0] * A[2, 2] - A[1, 2] * A[2, 0])
            + A[0, 2] * (A[1, 0] * A[2, 1] - A[1, 1] * A[2, 0]))


def exp_rot(h, chart="lt_pi", mirror=False):
    from cardillo.math import Exp_SO3
    psi, a = h.cone("c", chart=chart, mirror=mirror)
    A = Exp_SO3(psi)
    h.eq("Exp_SO3 orthonormal", A @ A.T, np.eye(3))
    h.eq("det Exp_SO3 = 1", _det(A), 1.0)
    h.eq("Exp_SO3(psi) psi = psi (axis fixed)", A @ psi, psi)
    h.eq("Exp_SO3(-psi) = Exp_SO3(psi)^T", Exp_SO3(-psi), A.T)


def log_exp(h, mirror=False):
    from cardillo.math import Exp_SO3, Log_SO3
    psi, a = h.cone("c", chart="lt_pi", mirror=mirror, upper=float(np.pi))
    A = Exp_SO3(psi)
    psi2 = Log_SO3(A)
    h.eq("Log_SO3(Exp_SO3(psi)) = psi", psi2, psi)
    h.eq("Exp_SO3(Log_SO3(A)) = A", Exp_SO3(psi2), A)


def half_turn(h):
    """exact half turns: A = 2 n n^T - I for a unit axis n (stereographic); Exp(Log A) must reproduce A"""
    from cardillo.math import Exp_SO3, Log_SO3
    x = h.vec("n", 2)
    d = 1 + x @ x
    n = h.arr([2 * x[0] / d, 2 * x[1] / d, (1 - x @ x) / d])
    A = 2 * np.outer(n, n) - np.eye(3)
    h.eq("harness: A is a rotation", A @ A.T, np.eye(3))
    if h.sym:
        # arccos(-1) = PI (libm returns the double nearest to it; the branch compares with np.pi and fails either way)
        from symx import core
        core.CTX.axioms.extend(core.pi_axioms())
        w = core.register_angle(core.S(core.Q(core.PI)), chart=2)   # cotangent chart: w = cot(PI/2) = 0
        core.CTX.axioms.append(w == 0)
    psi = h.call("Log_SO3 at a half turn", Log_SO3, A)
    if psi is not None:
        h.eq("Exp_SO3(Log_SO3(A)) = A at a half turn", Exp_SO3(psi), A)


def tangent(h, chart="lt_pi", mirror=False):
    from cardillo.math import Exp_SO3, T_SO3, T_SO3_inv, skew2ax
    lam, p, q = (h.nonneg("c_lam"), h.real("c_p"), h.real("c_q"))
    psi, a = h.cone_build(lam, p, q, chart=chart, mirror=mirror)
    T = T_SO3(psi)
    Ti = T_SO3_inv(psi)
    h.eq("T_SO3 T_SO3_inv = I", T @ Ti, np.eye(3))
    h.eq("T_SO3_inv T_SO3 = I", Ti @ T, np.eye(3))
    if chart == "lt_pi":
        dl, dp, dq = h.real("dlam"), h.real("dp"), h.real("dq")
        cone = lambda l_, p_, q_: h.cone_build(l_, p_, q_, mirror=mirror, register=False)[0]
        dpsi = h.D(cone, (lam, p, q), (dl, dp, dq))
        A = Exp_SO3(psi)
        dA = h.D(lambda l_, p_, q_: Exp_SO3(cone(l_, p_, q_)), (lam, p, q), (dl, dp, dq))
        h.eq("spin skew2ax(A^T dA) = T_SO3 dpsi", skew2ax(A.T @ dA), T @ dpsi)


def spurrier(h):
    from cardillo.math import Exp_SO3_quat, Spurrier
    P = h.quat("P")
    R = Exp_SO3_quat(P)
    quat = h.finite("Spurrier divides by nothing that can vanish (every rotation matrix, half turns included)", lambda: Spurrier(R))
    h.eq("Spurrier: unit quaternion", quat @ quat, 1.0)
    h.eq("Spurrier: Exp_SO3_quat(quat) = R", Exp_SO3_quat(quat), R)
    h.eq("Spurrier: non-normalising map agrees", Exp_SO3_quat(quat, normalize=False), R)


def se3(h, mirror=False):
    from cardillo.math import Exp_SE3, Log_SE3, SE3, SE3inv, Exp_SO3
    psi, a = h.cone("c", chart="lt_pi", mirror=mirror, upper=float(np.pi))
    r = h.vec("r", 3)
    hh = np.concatenate([r, psi])
    H = Exp_SE3(hh)
    h.eq("Exp_SE3 rotation block is Exp_SO3", H[:3, :3], Exp_SO3(psi))
    h.eq("Exp_SE3 last row", H[3], np.array([0.0, 0.0, 0.0, 1.0]))
    h.eq("SE3inv(H) H = I", SE3inv(H) @ H, np.eye(4))
    h2 = Log_SE3(H)
    h.eq("Log_SE3(Exp_SE3(h)) = h", h2, hh)
    h.eq("Exp_SE3(Log_SE3(H)) = H", Exp_SE3(h2), H)


def cases(tier, seed):
    T = 90 if tier == "quick" else 600
    cs = []
    mirrors = (False,) if tier == "quick" else (False, True)
    for m in mirrors:
        tag = "/mirror" if m else ""
        cs.append(Case("exp/lt_pi" + tag, exp_rot, dict(chart="lt_pi", mirror=m), timeout=T))
        cs.append(Case("exp/gt_pi" + tag, exp_rot, dict(chart="gt_pi", mirror=m), timeout=T))
        cs.append(Case("log_exp" + tag, log_exp, dict(mirror=m), timeout=T))
        cs.append(Case("tangent/lt_pi" + tag, tangent, dict(chart="lt_pi", mirror=m), timeout=T))
        cs.append(Case("tangent/gt_pi" + tag, tangent, dict(chart="gt_pi", mirror=m), timeout=T))
        cs.append(Case("se3" + tag, se3, dict(mirror=m), timeout=T, hard=T * 20))
    cs.append(Case("half_turn", half_turn, {}, timeout=T))
    cs.append(Case("spurrier", spurrier, {}, timeout=T, hard=T * 30))
    return cs
