"""C08 Force-element and actuator Jacobians are exact."""
import numpy as np
from symx.run import Case
from checks import lib
from checks.c07 import build_tpi

PROPERTY = "C08"
META = dict(
    level="proof",
    bounds="Spring / KelvinVoigtElement (force and compliance form) and MaxwellElement on TwoPointInteraction x {PM-PM, PM-RB, F-RB} (quick) + "
           "{RB-PM, RB-F, RB-RB per basis direction} (thorough); Force, B_Force, Moment, B_Moment on a rigid body; Spring/KelvinVoigt, Motor, PDcontroller, "
           "PIDcontroller on a Revolute joint, evaluated at states on the joint manifold (free pose and velocity of the first body, joint angle by its "
           "Weierstrass symbol, all four quadrant paths) with arbitrary directions dq, du; k, d, eta, gains, l_ref symbolic.",
    assumptions=["quaternions nonzero; k, d, eta > 0", "distance of the two points nonzero",
                 "Revolute: base configurations on the joint manifold (the angle is undefined where the projected axes vanish), velocities free; arctan's value is an unconstrained symbol, its derivative dz/(1+z^2)"],
    trusted_base=[],
)


def tpi_jac(h, pairing="PM-PM", law="Spring", form="force", k=None, seed=0):
    sysm, tpi, el, par, lref = build_tpi(h, pairing, law, form, seed)
    t, q, u, ud = lib.sys_state(h, sysm, with_ud=False)
    dq = h.vec("dq", sysm.nq) if k is None else np.eye(sysm.nq)[k]
    du = h.vec("du", sysm.nu)
    qT, uT = tpi.qDOF, tpi.uDOF
    qE, uE = el.qDOF, el.uDOF
    if law == "TPI":
        pass
    h.eq("l_q", h.D(lambda q_: tpi.l(t, q_[qT]), (q,), (dq,)), tpi.l_q(t, q[qT]) @ dq[qT])
    h.eq("l_dot_q", h.D(lambda q_: tpi.l_dot(t, q_[qT], u[uT]), (q,), (dq,)), tpi.l_dot_q(t, q[qT], u[uT]) @ dq[qT])
    h.eq("l_dot_u", h.D(lambda u_: tpi.l_dot(t, q[qT], u_[uT]), (u,), (du,)), tpi.l_dot_u(t, q[qT], u[uT]) @ du[uT])
    h.eq("W_l = (l_dot_u)^T", tpi.W_l(t, q[qT]), tpi.l_dot_u(t, q[qT], u[uT]))
    h.eq("W_l_q", h.D(lambda q_: tpi.W_l(t, q_[qT]), (q,), (dq,)), tpi.W_l_q(t, q[qT]) @ dq[qT])
    n1, n2 = tpi._n_q(t, q[qT])
    h.eq("_n_q", h.D(lambda q_: tpi._n(t, q_[qT]), (q,), (dq,)), np.hstack([n1, n2]) @ dq[qT])
    if law == "Maxwell":
        h.eq("Maxwell h_q", h.D(lambda q_: el.h(t, q_[qE], u[uE]), (q,), (dq,)), el.h_q(t, q[qE], u[uE]) @ dq[qE])
        h.eq("Maxwell q_dot_q", h.D(lambda q_: el.q_dot(t, q_[qE], u[uE]), (q,), (dq,)), el.q_dot_q(t, q[qE], u[uE]) @ dq[qE])
        h.eq("Maxwell q_dot_u", h.D(lambda u_: el.q_dot(t, q[qE], u_[uE]), (u,), (du,)), el.q_dot_u(t, q[qE]) @ du[uE])
        return
    h.eq("la_c_q", h.D(lambda q_: el.la_c(t, q_[qE], u[uE]), (q,), (dq,)), el.la_c_q(t, q[qE], u[uE]) @ dq[qE])
    h.eq("la_c_u", h.D(lambda u_: el.la_c(t, q[qE], u_[uE]), (u,), (du,)), el.la_c_u(t, q[qE], u[uE]) @ du[uE])
    if form == "force":
        h.eq("h_q", h.D(lambda q_: el.h(t, q_[qE], u[uE]), (q,), (dq,)), el.h_q(t, q[qE], u[uE]) @ dq[qE])
        h.eq("h_u", h.D(lambda u_: el.h(t, q[qE], u_[uE]), (u,), (du,)), el.h_u(t, q[qE], u[uE]) @ du[uE])
    else:
        la, dla = h.real("la"), h.real("dla")
        h.eq("c_q", h.D(lambda q_: el.c(t, q_[qE], u[uE], la), (q,), (dq,)), el.c_q(t, q[qE], u[uE], la) @ dq[qE])
        h.eq("c_u", h.D(lambda u_: el.c(t, q[qE], u_[uE], la), (u,), (du,)), el.c_u(t, q[qE], u[uE], la) @ du[uE])
        h.eq("c_la_c", h.D(lambda la_: el.c(t, q[qE], u[uE], la_), (la,), (dla,)), el.c_la_c() * dla)
        h.eq("Wla_c_q", h.D(lambda q_: el.W_c(t, q_[qE]) @ h.arr([la]), (q,), (dq,)), el.Wla_c_q(t, q[qE], la) @ dq[qE])


def force_jac(h, kind="Force", seed=0):
    from cardillo import System
    import cardillo.forces as F
    rng = np.random.default_rng(seed + 61)
    body = lib.make_rb(rng, "body")
    f0, f1 = h.vec("f0", 3), h.vec("f1", 3)
    B = h.vec("B", 3)
    fun = lambda t: f0 + t * f1
    if kind in ("Force", "B_Force"):
        el = getattr(F, kind)(fun, body, B_r_CP=B)
    else:
        el = getattr(F, kind)(fun, body)
    sysm = System()
    sysm.add(body, el)
    lib.assemble(sysm)
    t, q, u, ud = lib.sys_state(h, sysm, with_ud=False)
    dq = h.vec("dq", sysm.nq)
    h.eq(f"{kind}.h_q", h.D(lambda q_: el.h(t, q_[el.qDOF], u[el.uDOF]), (q,), (dq,)), el.h_q(t, q[el.qDOF], u[el.uDOF]) @ dq[el.qDOF])
    # the generalized force is the transposed Jacobian applied to the load
    A = body.A_IB(t, q)
    if kind == "Force":
        h.eq("Force.h = J_P^T F", el.h(t, q, u), body.J_P(t, q, B_r_CP=B).T @ fun(t))
    elif kind == "B_Force":
        h.eq("B_Force.h = J_P^T A F", el.h(t, q, u), body.J_P(t, q, B_r_CP=B).T @ (A @ fun(t)))
    elif kind == "Moment":
        h.eq("Moment.h = B_J_R^T A^T M", el.h(t, q, u), body.B_J_R(t, q).T @ (A.T @ fun(t)))
    else:
        h.eq("B_Moment.h = B_J_R^T M", el.h(t, q, u), body.B_J_R(t, q).T @ fun(t))


def revolute_jac(h, first="F", what="joint", axis=2, seed=0, concrete_orientation=False):
    from cardillo.force_laws import Spring, KelvinVoigtElement
    from cardillo.actuators import Motor, PDcontroller, PIDcontroller
    h.option("arctan_hints", False)
    k, d, lref = h.pos("k"), h.pos("d"), h.real("lref")
    kp, ki, kd = h.real("kp"), h.real("ki"), h.real("kd")
    tau0, tau1 = h.vec("tau0", 2), h.vec("tau1", 2)
    tau = lambda t: tau0 + t * tau1

    def extra(rp):
        if what == "joint":
            rp.el = None
            return []
        if what == "Spring":
            rp.el = Spring(rp.joint, k, l_ref=lref, compliance_form=False)
        elif what == "KelvinVoigt":
            rp.el = KelvinVoigtElement(rp.joint, k, d, l_ref=lref, compliance_form=False)
        elif what == "KelvinVoigtC":
            rp.el = KelvinVoigtElement(rp.joint, k, d, l_ref=lref, compliance_form=True)
        elif what == "Maxwell":
            from cardillo.force_laws import MaxwellElement
            rp.el = MaxwellElement(rp.joint, k, h.pos("eta"), l_ref=lref)
        elif what == "Motor":
            rp.el = Motor(rp.joint, lambda t: tau(t)[0])
        elif what == "PD":
            rp.el = PDcontroller(rp.joint, kp, kd, tau)
        elif what == "PID":
            rp.el = PIDcontroller(rp.joint, kp, ki, kd, tau)
        return [rp.el]
    rp = lib.RevolutePair(h, seed=seed, axis=axis, first=first, extra=extra, angle0=0.25)
    lib.assemble(rp.sysm)
    t, qb, ub, phi, phid = rp.state(concrete_orientation=concrete_orientation)
    j, el, sysm = rp.joint, rp.el, rp.sysm
    # system coordinates: bodies first; a PID controller owns one more coordinate (the integrated error)
    q = np.concatenate([qb, h.vec("qi", sysm.nq - len(qb))]) if sysm.nq > len(qb) else qb
    # velocities are NOT restricted to the joint's velocity manifold: derivative routines must be exact for every u
    u = h.vec("u", sysm.nu)
    dq, du = h.vec("dq", sysm.nq), h.vec("du", sysm.nu)
    qJ, uJ = j.qDOF, j.uDOF
    if what == "joint":
        h.eq("Revolute l_q", h.D(lambda q_: j.l(t, q_[qJ]), (q,), (dq,)), j.l_q(t, q[qJ]) @ dq[qJ])
        h.eq("Revolute l_dot_q", h.D(lambda q_: j.l_dot(t, q_[qJ], u[uJ]), (q,), (dq,)), j.l_dot_q(t, q[qJ], u[uJ]) @ dq[qJ])
        h.eq("Revolute l_dot_u", h.D(lambda u_: j.l_dot(t, q[qJ], u_[uJ]), (u,), (du,)), j.l_dot_u(t, q[qJ], u[uJ]) @ du[uJ])
        h.eq("Revolute W_l = (l_dot_u)^T", j.W_l(t, q[qJ]).reshape(-1), j.l_dot_u(t, q[qJ], u[uJ]))
        h.eq("Revolute W_l_q", h.D(lambda q_: j.W_l(t, q_[qJ]), (q,), (dq,)), j.W_l_q(t, q[qJ]) @ dq[qJ])
        return
    qE, uE = el.qDOF, el.uDOF
    if what in ("Spring", "KelvinVoigt"):
        h.eq("h_q", h.D(lambda q_: el.h(t, q_[qE], u[uE]), (q,), (dq,)), el.h_q(t, q[qE], u[uE]) @ dq[qE])
        h.eq("h_u", h.D(lambda u_: el.h(t, q[qE], u_[uE]), (u,), (du,)), el.h_u(t, q[qE], u[uE]) @ du[uE])
    elif what == "Maxwell":
        h.eq("Maxwell h_q", h.D(lambda q_: el.h(t, q_[qE], u[uE]), (q,), (dq,)), el.h_q(t, q[qE], u[uE]) @ dq[qE])
        h.eq("Maxwell q_dot_q", h.D(lambda q_: el.q_dot(t, q_[qE], u[uE]), (q,), (dq,)), el.q_dot_q(t, q[qE], u[uE]) @ dq[qE])
        h.eq("Maxwell q_dot_u", h.D(lambda u_: el.q_dot(t, q[qE], u_[uE]), (u,), (du,)), el.q_dot_u(t, q[qE]) @ du[uE])
        hs = h.call("System.h_q evaluates", sysm.h_q, t, q, u)
        if hs is not None:
            h.eq("System.h_q = element h_q scattered", np.asarray(hs.toarray())[np.ix_(uE, qE)], el.h_q(t, q[qE], u[uE]))
    elif what == "KelvinVoigtC":
        la, dla = h.real("la"), h.real("dla")
        h.eq("c_q", h.D(lambda q_: el.c(t, q_[qE], u[uE], la), (q,), (dq,)), el.c_q(t, q[qE], u[uE], la) @ dq[qE])
        h.eq("c_u", h.D(lambda u_: el.c(t, q[qE], u_[uE], la), (u,), (du,)), el.c_u(t, q[qE], u[uE], la) @ du[uE])
        h.eq("c_la_c", h.D(lambda la_: el.c(t, q[qE], u[uE], la_), (la,), (dla,)), el.c_la_c() * dla)
        h.eq("Wla_c_q", h.D(lambda q_: el.W_c(t, q_[qE]) @ h.arr([la]), (q,), (dq,)), el.Wla_c_q(t, q[qE], la) @ dq[qE])
    else:
        f = lambda q_, u_: el.W_tau(t, q_[qE]) @ el.la_tau(t, q_[qE], u_[uE])
        h.eq("Wla_tau_q", h.D(lambda q_: f(q_, u), (q,), (dq,)), el.Wla_tau_q(t, q[qE], u[uE]) @ dq[qE])
        h.eq("Wla_tau_u", h.D(lambda u_: f(q, u_), (u,), (du,)), el.Wla_tau_u(t, q[qE], u[uE]) @ du[uE])
        h.eq("la_tau_q", h.D(lambda q_: el.la_tau(t, q_[qE], u[uE]), (q,), (dq,)), el.la_tau_q(t, q[qE], u[uE]) @ dq[qE])
        h.eq("la_tau_u", h.D(lambda u_: el.la_tau(t, q[qE], u_[uE]), (u,), (du,)), el.la_tau_u(t, q[qE], u[uE]) @ du[uE])
        if what == "PID":
            h.eq("PID q_dot_q", h.D(lambda q_: el.q_dot(t, q_[qE], u[uE]), (q,), (dq,)), el.q_dot_q(t, q[qE], u[uE]) @ dq[qE])


def cases(tier, seed):
    T = 120 if tier == "quick" else 900
    cs = []
    pairings = ("PM-PM", "PM-RB", "RB-PM", "F-RB") if tier == "quick" else ("PM-PM", "PM-RB", "RB-PM", "F-RB", "RB-F")
    rng = np.random.default_rng(seed)
    for p in pairings:
        nq = sum({"RB": 7, "PM": 3, "F": 0}[s] for s in p.split("-"))
        for law, form in (("Spring", "force"), ("KelvinVoigt", "force"), ("KelvinVoigt", "compliance"), ("Spring", "compliance"), ("Maxwell", "force")):
            heavy = (law == "KelvinVoigt" and form == "force" and p != "PM-PM")
            if not heavy:
                cs.append(Case(f"tpi/{p}/{law}/{form}", tpi_jac, dict(pairing=p, law=law, form=form, seed=seed), timeout=T, hard=T * 8))
            else:
                # the damper term makes dh/dq the largest polynomial family: one case per basis direction
                dirs = sorted(int(x) for x in rng.choice(nq, size=2, replace=False)) if tier == "quick" else range(nq)
                for k in dirs:
                    cs.append(Case(f"tpi/{p}/{law}/{form}/dir{k}", tpi_jac, dict(pairing=p, law=law, form=form, k=k, seed=seed),
                                   timeout=(40 if tier == "quick" else T), hard=T * 8))
    if tier == "thorough":
        for k in range(14):
            for law, form in (("KelvinVoigt", "force"), ("Maxwell", "force")):
                cs.append(Case(f"tpi/RB-RB/{law}/{form}/dir{k}", tpi_jac, dict(pairing="RB-RB", law=law, form=form, k=k, seed=seed), timeout=T, hard=T * 8))
    for kind in ("Force", "B_Force", "Moment", "B_Moment"):
        cs.append(Case(f"force/{kind}", force_jac, dict(kind=kind, seed=seed), timeout=T))
    for first in ("F", "RB"):
        for what in ("joint", "Spring", "KelvinVoigt", "KelvinVoigtC", "Maxwell", "Motor", "PD", "PID"):
            for axis in (((seed + 1) % 3,) if tier == "quick" else (0, 1, 2)):
                cs.append(Case(f"revolute/{first}/{what}/ax{axis}", revolute_jac,
                               dict(first=first, what=what, axis=axis, seed=seed, concrete_orientation=(tier == "quick")), timeout=T, hard=T * 10))
    return cs
