"""C21 Non-convergence is never silent."""
import types
import warnings
import numpy as np
from symx.run import Case

PROPERTY = "C21"
META = dict(
    level="model_checking",
    bounds="the real solve() of BackwardEuler, Rattle, Moreau, DualStormerVerlet and the static Newton solver on tiny concrete systems (a point mass over a "
           "plane with friction; a point mass on a spring) for 2 time/load steps with newton_max_iter = fixed_point_max_iter = 2; the OUTCOME of every "
           "nonlinear solve (fsolve(...).success) and of every fixed-point convergence test (error < 1) is a symbolic boolean (fault schedule); all "
           "schedules within the bound are explored for continue_with_unconverged in {False, True}.  Plus: ScipyIVP / ScipyDAE constructed on a system with "
           "unilateral contacts must raise or warn.  Outside: longer horizons, MINRES failures inside DualStormerVerlet.",
    assumptions=["a fault can only turn a success into a failure (the concrete run supplies the values)",
                 "failure event of a step = its last nonlinear-solve outcome or its last fixed-point test is 'failed'"],
    trusted_base=["the solver's role here is path feasibility over the schedule booleans; coverage is exhaustive within the bound"],
)


class Rec:
    """a convergence outcome whose truth value is decided (and recorded) when the solver looks at it"""

    def __init__(self, mon, kind, base, fault):
        self.mon, self.kind, self.base, self.fault = mon, kind, base, fault
        self.examined = False
        if kind == "newton":
            mon.solves.append(self)

    def __bool__(self):
        self.examined = True
        v = bool(self.base) and not bool(self.fault)
        self.mon.decisions.append((self.mon.step, self.kind, v))
        return v

    def __and__(self, o):
        return bool(self) and bool(o)

    __rand__ = __and__


class FaultFloat(float):
    def __new__(cls, v, mon):
        o = float.__new__(cls, v)
        o.mon = mon
        return o

    def __truediv__(self, o):
        return FaultFloat(float(self) / o, self.mon)

    def __lt__(self, o):
        return Rec(self.mon, "fixed_point", float(self) < o, self.mon.fault())

    def __format__(self, spec):
        return format(float(self), spec)


class Monitor:
    def __init__(self, h):
        self.h = h
        self.nf = 0
        self.step = 0
        self.decisions = []
        self.solves = []

    def fault(self):
        self.nf += 1
        return self.h.boolean(f"fault{self.nf}")


_ORIG = {}


def instrument(mod, mon):
    """rebind, in one solver module, fsolve / np.linalg.norm / tqdm to fault-injecting versions of the real ones"""
    real_np = np
    if mod.__name__ not in _ORIG:
        _ORIG[mod.__name__] = dict(fsolve=getattr(mod, "fsolve", None), tqdm=getattr(mod, "tqdm", None))
    orig = _ORIG[mod.__name__]

    class _NP(types.ModuleType):
        def __getattr__(self, k):
            return getattr(real_np, k)

    class _LA(types.ModuleType):
        def __getattr__(self, k):
            return getattr(real_np.linalg, k)
    npx, la = _NP("np"), _LA("la")
    la.norm = lambda x, *a, **k: FaultFloat(real_np.linalg.norm(x, *a, **k), mon)
    npx.linalg = la
    if orig["fsolve"] is not None:
        real_fsolve = orig["fsolve"]

        def fsolve_stub(*a, **k):
            with warnings.catch_warnings():
                warnings.simplefilter("ignore")
                r = real_fsolve(*a, **k)
            r.success = Rec(mon, "newton", bool(r.success), mon.fault())
            return r
        mod.fsolve = fsolve_stub
    mod.np = npx

    class _T:
        def __init__(s, it=None, *a, **k):
            s.it = it

        def __iter__(s):
            for x in s.it:
                mon.step += 1
                yield x

        def set_description(s, *a, **k):
            pass

        def update(s, *a, **k):
            pass

        def close(s):
            pass
    if orig["tqdm"] is not None:
        mod.tqdm = _T


def contact_system():
    from cardillo import System
    from cardillo.discrete import PointMass, Frame
    from cardillo.forces import Force
    from cardillo.contacts import Sphere2Plane
    pm = PointMass(1.0, q0=np.array([0.0, 0.0, 0.0]), u0=np.array([0.5, 0.0, 0.0]))
    plane = Frame()
    c = Sphere2Plane(plane, pm, mu=0.3, r=0.0)
    sysm = System()
    sysm.add(pm, plane, c, Force(np.array([0.0, 0.0, -10.0]), pm))
    sysm.assemble()
    return sysm


def smooth_system():
    from cardillo import System
    from cardillo.discrete import PointMass
    from cardillo.forces import Force
    from cardillo.interactions import TwoPointInteraction
    from cardillo.force_laws import Spring
    pm = PointMass(1.0, q0=np.array([1.0, 0.0, 0.0]), u0=np.zeros(3))
    sysm = System()
    sp = Spring(TwoPointInteraction(sysm.origin, pm), 10.0, l_ref=0.5, compliance_form=False)
    sysm.add(pm, sp, Force(np.array([0.0, 0.0, -1.0]), pm))
    sysm.assemble()
    return sysm


FIELDS = ("q", "u", "q_dot", "u_dot", "la_g", "la_gamma", "la_c", "la_N", "la_F", "P_g", "P_gamma", "P_N", "P_F")


def schedule(h, solver="BackwardEuler", system="contact", cont=False, only_rows=False, fp_iter=2, nsteps=2):
    import importlib
    from cardillo.solver import SolverOptions
    mon = Monitor(h)
    modname = dict(BackwardEuler="backward_euler", Rattle="rattle", Moreau="moreau", DualStormerVerlet="dual_stormer_verlet", Newton="statics")[solver]
    mod = importlib.import_module("cardillo.solver." + modname)
    instrument(mod, mon)
    opts = SolverOptions(newton_max_iter=2, fixed_point_max_iter=fp_iter, continue_with_unconverged=cont)
    dt = 0.01
    out = dict(raised=None, nt=None, rows_ok=None)
    with h.capture() as cap:
        sysm = contact_system() if system == "contact" else smooth_system()
        try:
            if solver == "Newton":
                S = mod.Newton(sysm, n_load_steps=nsteps, verbose=True, options=opts)
                full = nsteps + 1
            else:
                S = getattr(mod, solver)(sysm, nsteps * dt, dt, options=opts)
                full = None
            mon.step = 0
            sol = S.solve()
            out["nt"] = len(sol.t)
            rows = {f: len(getattr(sol, f)) for f in FIELDS if getattr(sol, f, None) is not None}
            out["rows_ok"] = all(r == len(sol.t) for r in rows.values())
            out["rows"] = dict(rows, t=len(sol.t))
        except (RuntimeError, AssertionError, ValueError) as e:
            out["raised"] = type(e).__name__
    if only_rows:
        # (used by C20: the Solution contract also holds for runs that stop early)
        if out["nt"] is not None:
            h.holds("every stored field has one row per stored instant (all fault schedules, incl. truncated runs)", bool(out["rows_ok"]), info=str(out.get("rows")))
        else:
            h.holds("run raised instead of returning", out["raised"] is not None)
        return
    said = lambda m: "not converged" in m.lower() or "unconverged" in m.lower()
    warned = [m for m in cap["warnings"] if said(m)]
    notices = warned + [m for m in cap["prints"] if said(m)]
    # failure events: per step, the last outcome of each kind
    last = {}
    for (s, kind, v) in mon.decisions:
        last[(s, kind)] = v
    failed_steps = sorted({s for (s, kind), v in last.items() if not v})
    name = f"{solver}/{system}/cont={cont}"
    if failed_steps:
        first = failed_steps[0]
        if out["raised"]:
            ok = True
        elif cont:
            ok = bool(warned)           # "it warns and continues": a Python warning, not only a line on stdout
        else:
            # returned: must say so, and hold only steps completed before the failing one (time integrators store the
            # initial state as row 0; the static solver also has to SOLVE its first load step)
            allowed = first - 1 if solver == "Newton" else first
            ok = bool(notices) and out["nt"] is not None and out["nt"] <= allowed
        h.holds("a failed nonlinear solve / fixed-point loop raises, or warns (and returns converged steps only)", ok,
                info=f"failed steps {failed_steps}, raised={out['raised']}, nt={out['nt']}, notices={notices[:2]}")
    elif all(v for (_, _, v) in mon.decisions):
        # no failed outcome at all on this schedule
        h.holds("without any failure the run completes silently", out["raised"] is None and not notices,
                info=f"raised={out['raised']} notices={notices[:2]}")
        if full is not None:
            h.holds("complete run returns all load steps", out["nt"] == full)
    else:
        # an intermediate failure that a later iteration of the same step repaired: raising / warning are both acceptable
        h.holds("intermediate failure repaired within the step", True)
    if out["nt"] is not None:
        h.holds("every stored field has one row per stored instant", bool(out["rows_ok"]))
    # a nonlinear solve whose convergence flag the solver never looked at (e.g. a re-solve inside a fixed-point loop of which only the
    # last is checked): the run is the same whether or not that solve converged, so its failure would be silent
    ignored = [r for r in mon.solves if not r.examined]
    if out["raised"] is None and not notices:
        h.holds("the convergence flag of every nonlinear solve of a silently completed run was examined", not ignored,
                info=f"{len(ignored)} of {len(mon.solves)} solves unexamined")
    if system == "contact" or solver != "Moreau":
        h.holds("exploration reached the solver loop", len(mon.decisions) > 0 or out["raised"] is not None)


def unsupported(h, solver="ScipyIVP"):
    """a solver that cannot treat unilateral contacts must not silently ignore them"""
    import cardillo.solver as S
    with h.capture() as cap:
        sysm = contact_system()
        raised = None
        try:
            getattr(S, solver)(sysm, 0.02, 0.01)
        except Exception as e:
            raised = type(e).__name__
    said = [m for m in cap["warnings"] + cap["prints"] if "contact" in m.lower() or "unilateral" in m.lower()]
    h.holds(f"{solver} on a system with contacts raises or warns", bool(raised) or bool(said), info=f"raised={raised} warnings={cap['warnings'][:2]}")


def helper_contract(h, which="plain", n=2, max_iter=2):
    """the fixed-point helper the step loops rely on, driven by a map that updates its argument IN PLACE (as DualStormerVerlet's step map does):
    it must not declare convergence because iterate and image share storage (contract of C22, needed here for 'a failed loop raises')"""
    from checks import c22
    c22.fixed_point_contract(h, n=n, which=which, max_iter=max_iter, inplace=True)


def coverage_extra(cases, results):
    paths = sum(len(R["paths"]) for R in results.values())
    return dict(states=max(1, paths), transitions=max(1, sum(len(R["obls"]) for R in results.values())),
                explanation="states = fault schedules (feasible paths) explored through the real solve(); one monitor verdict per schedule",
                exhaustive=True)


def cases(tier, seed):
    cs = []
    for solver in ("BackwardEuler", "Rattle", "Moreau", "DualStormerVerlet", "Newton"):
        systems = ("smooth",) if solver == "Newton" else ("contact", "smooth")
        for system in systems:
            for cont in (False, True):
                cs.append(Case(f"{solver}/{system}/cont{int(cont)}", schedule, dict(solver=solver, system=system, cont=cont), timeout=30,
                               max_paths=(256 if tier == "quick" else 2048), max_depth=64, patch=False, sentinel=False, hard=1200))
    # three fixed-point iterations over one step: a re-solve in the middle of a fixed-point loop that then converges (the loop's own
    # failure would otherwise always accompany two re-solves and speak for them)
    for solver in ("BackwardEuler", "Rattle"):
        for cont in (False, True):
            cs.append(Case(f"{solver}/contact/cont{int(cont)}/fp3", schedule, dict(solver=solver, system="contact", cont=cont, fp_iter=3, nsteps=1), timeout=30,
                           max_paths=(256 if tier == "quick" else 2048), max_depth=64, patch=False, sentinel=False, hard=1200))
    for which in ("plain", "momentum"):
        cs.append(Case(f"helper/fixed_point_{which}/inplace_map", helper_contract, dict(which=which, n=2, max_iter=2), timeout=60, max_paths=128, sentinel=False))
    for solver in ("ScipyIVP", "ScipyDAE"):
        cs.append(Case(f"unsupported/{solver}", unsupported, dict(solver=solver), timeout=30, patch=False, sentinel=False))
    return cs
