"""C26 Memoised kinematic evaluations are transparent."""
import itertools
import numpy as np
from symx.run import Case
from checks import lib

PROPERTY = "C26"
META = dict(
    level="model_checking",
    bounds="2-safety over operation sequences of length <= 3: evaluate(a1), [state-changing operation], evaluate(a2) for every memoised method (RigidBody "
           "A_IB, A_IB_q, r_OP, v_P, J_P; rod _eval, _deval, A_IB for Quaternion / R12 interpolation; Sphere2Sphere n, n_q1_q2, t1t2, t1t2_q1_q2; "
           "Mesh1D.eval_basis), with the aliasing pattern between a1 and a2 ENUMERATED: a2 shares the symbols of a1 on every subset of the argument "
           "groups (t, q, u, xi, offset, ...) and carries fresh symbols on the rest; state-changing operations: step_callback, set_reference_strains, "
           "re-assemble.  On every sequence the memoised result must equal the result computed with all caches cleared immediately before the call.",
    assumptions=["cache hits are decided by cachetools on structural equality of the symbolic keys; distinct symbols are distinct values (aliasing is enumerated, not left to the solver)"],
    trusted_base=["cachetools LRU semantics"],
)


def _clear(obj):
    from symx import shims
    shims.find_and_clear_caches(obj)
    for v in list(vars(obj).values()):
        if hasattr(v, "__dict__") and not isinstance(v, (np.ndarray, type)):
            try:
                shims.find_and_clear_caches(v)
            except Exception:
                pass


def _cmp(h, name, obj, call, args2):
    """memoised result of call(*args2) vs the same call with the caches cleared just before"""
    v = call(*args2)
    _clear(obj)
    ref = call(*args2)
    vs = v if isinstance(v, tuple) else (v,)
    rs = ref if isinstance(ref, tuple) else (ref,)
    for k, (a, b) in enumerate(zip(vs, rs)):
        h.eq(f"{name}: memoised = fresh [{k}]", np.asarray(a), np.asarray(b))


def rigid_body(h, method="r_OP", shared=(), op=None, seed=0, one=None):
    rng = np.random.default_rng(seed + 3)
    rb = lib.make_rb(rng, "rb")
    groups = dict(t=lambda tag: h.real(tag + "t"), q=lambda tag: np.concatenate([h.vec(tag + "r", 3), h.quat(tag + "P")]),
                  u=lambda tag: h.vec(tag + "u", 6), B=lambda tag: h.vec(tag + "B", 3))
    a1 = {g: f("a_") for g, f in groups.items()}
    a2 = {g: (a1[g] if g in shared else f("b_")) for g, f in groups.items()}
    if one is not None:
        # the second call differs from the first in ONE coordinate only (a cache key built from a slice of the arguments must still tell them apart)
        g, k = one
        a2 = dict(a1)
        a2[g] = np.array(a1[g], dtype=object if h.sym else float).copy()
        a2[g][k] = h.real(f"other_{g}{k}")
        if g == "q":
            h.assume(a2["q"][3:] @ a2["q"][3:] > 0, "quaternion nonzero")
    calls = dict(A_IB=lambda a: rb.A_IB(a["t"], a["q"]), A_IB_q=lambda a: rb.A_IB_q(a["t"], a["q"]),
                 r_OP=lambda a: rb.r_OP(a["t"], a["q"], B_r_CP=a["B"]), v_P=lambda a: rb.v_P(a["t"], a["q"], a["u"], B_r_CP=a["B"]),
                 J_P=lambda a: rb.J_P(a["t"], a["q"], B_r_CP=a["B"]),
                 r_OP_default=lambda a: rb.r_OP(a["t"], a["q"]), r_OP_q=lambda a: rb.r_OP_q(a["t"], a["q"], B_r_CP=a["B"]),
                 a_P=lambda a: rb.a_P(a["t"], a["q"], a["u"], a["u"], B_r_CP=a["B"]))
    f = calls[method]
    f(a1)
    if op == "step_callback":
        rb.step_callback(a1["t"], a1["q"].copy(), a1["u"].copy())
    elif op == "other_methods":
        for m in ("A_IB", "r_OP", "v_P", "J_P", "A_IB_q"):
            calls[m](a2 if m != method else a1)
    _cmp(h, method, rb, lambda a: f(a), (a2,))


def rod(h, interp="Quaternion", method="_eval", shared=(), op=None, seed=0):
    r, Q, nn = lib.make_rod(h, interp=interp, mixed=False, p=1, nel=2, Q="curved", seed=seed)
    xis = dict(a=0.25, b=0.75)
    el = {k: int(r.element_number(x)[0]) if hasattr(r.element_number(x), "__len__") else int(r.element_number(x)) for k, x in xis.items()}

    def mk(tag, which_xi):
        qe = h.vec(tag + "qe", r.nq_element)
        return qe
    qa = mk("a_", "a")
    qb = qa if "qe" in shared else mk("b_", "b")
    xa = xis["a"]
    xb = xa if "xi" in shared else xis["b"]
    Boff = h.vec("Boff", 3)          # body-fixed offset of the queried cross-section point
    uvec = h.vec("uel", r.nu_element)

    def call(qe, xi):
        N, N_xi = r.basis_functions_r(xi)
        if method == "_eval":
            return r._eval(qe, xi, N, N_xi)
        if method == "_deval":
            return r._deval(qe, xi, N, N_xi)
        if method == "A_IB":
            return r.A_IB(0.0, qe, xi)
        ue = np.zeros(r.nu_element)
        if method == "r_OP":
            return r.r_OP(0.0, qe, xi, Boff)
        if method == "r_OP_q":
            return r.r_OP_q(0.0, qe, xi, Boff)
        if method == "v_P":
            return r.v_P(0.0, qe, uvec, xi, Boff)
        if method == "J_P":
            return r.J_P(0.0, qe, xi, Boff)
        if method == "strains_after_offset_query":
            r.r_OP(0.0, qe, xi, Boff)
            return r._eval(qe, xi, N, N_xi)
    call(qa, xa)
    if op == "set_reference_strains":
        Q2 = np.asarray(Q, dtype=object if h.sym else float).copy()
        Q2[: 3 * nn] = 1.5 * Q2[: 3 * nn]
        r.set_reference_strains(Q2)
    elif op == "step_callback":
        r.step_callback(0.0, np.concatenate([qa, qa])[: r.nq].copy(), np.zeros(r.nu))
    elif op == "quadrature_sweep":
        # the element routines evaluate at every quadrature point of every element in between (fills / evicts the LRU)
        qq = np.concatenate([qb, qb])[: r.nq]
        r.E_pot(0.0, qq)
    _cmp(h, method, r, call, (qb, xb))


def sphere2sphere(h, method="t1t2", shared=(), op=None, seed=0, one=None):
    from checks.c06 import _s2s
    sysm, a, b, con, r1, r2, mu = _s2s(h, "PM-PM", seed)
    qa = h.vec("a_q", 6)
    ta = h.real("a_t")
    qb = qa if "q" in shared else h.vec("b_q", 6)
    tb = ta if "t" in shared else h.real("b_t")
    if one is not None:
        qb = np.array(qa, dtype=object if h.sym else float).copy()
        qb[one] = h.real(f"other_q{one}")
        tb = ta
    f = getattr(con, method)
    f(ta, qa)
    if op == "step_callback":
        qs = h.vec("s_q", 6)
        con.step_callback(h.real("s_t"), qs, np.zeros(6))
    elif op == "step_callback_same":
        con.step_callback(ta, qa, np.zeros(6))
    _cmp(h, method, con, lambda t_, q_: f(t_, q_), (tb, qb))


def mesh(h, shared=(), seed=0, knot=None):
    from cardillo.rods.discretization.lagrange import LagrangeKnotVector
    from cardillo.rods.discretization.mesh1D import Mesh1D
    kv = LagrangeKnotVector(2, 4 if knot else 2)
    m = Mesh1D(kv, 2, 3, derivative_order=1)
    xa, ea = 0.25, 0
    xb, eb = (xa if "xi" in shared else 0.75), (ea if "el" in shared else None)
    if knot:
        # both one-sided evaluations (and the default one) at an element boundary, in either order
        kn = float(kv.data[knot[0]])
        (xa, ea), (xb, eb) = (kn, knot[1]), (kn, knot[2])
    m.eval_basis(xa, ea)
    v = m.eval_basis(xb, eb)
    m._eval_basis_cache.clear()
    ref = m.eval_basis(xb, eb)
    h.eq("eval_basis: memoised = fresh", np.asarray(v, dtype=float), np.asarray(ref, dtype=float))
    # a cached array handed out twice must not be corruptible by the first consumer
    w = m.eval_basis(xb, eb)
    h.eq("eval_basis: repeated call", np.asarray(w, dtype=float), np.asarray(ref, dtype=float))


def _subsets(groups):
    for k in range(len(groups) + 1):
        for s in itertools.combinations(groups, k):
            yield s


def coverage_extra(cases, results):
    return dict(states=max(1, sum(len(R["paths"]) for R in results.values())), transitions=max(1, 3 * len(cases)),
                explanation="states = operation sequences executed (one per aliasing pattern x operation x method); each sequence has up to 3 operations",
                exhaustive=True)


def cases(tier, seed):
    T = 60 if tier == "quick" else 300
    cs = []
    for method in ("A_IB", "A_IB_q", "r_OP", "v_P", "J_P", "r_OP_default", "r_OP_q", "a_P"):
        for sh in _subsets(("t", "q", "u", "B")):
            for op in (None, "step_callback", "other_methods"):
                if tier == "quick" and op == "other_methods" and len(sh) not in (3, 4):
                    continue
                cs.append(Case(f"rb/{method}/share[{','.join(sh)}]/{op}", rigid_body, dict(method=method, shared=sh, op=op, seed=seed), timeout=T))
        for g, n in ((("q", 7), ("B", 3)) if (tier == "thorough" or method in ("A_IB", "r_OP", "v_P", "J_P")) else ()):
            for k in range(n):
                cs.append(Case(f"rb/{method}/differs_only_in_{g}{k}", rigid_body, dict(method=method, shared=("t", "q", "u", "B"), one=(g, k), seed=seed), timeout=T))
    for interp in ("Quaternion", "R12"):
        for method in ("_eval", "_deval", "A_IB", "r_OP", "r_OP_q", "v_P", "J_P", "strains_after_offset_query"):
            for sh in _subsets(("qe", "xi")):
                for op in (None, "set_reference_strains", "step_callback", "quadrature_sweep"):
                    cs.append(Case(f"rod/{interp}/{method}/share[{','.join(sh)}]/{op}", rod, dict(interp=interp, method=method, shared=sh, op=op, seed=seed), timeout=T))
    for method in ("n", "n_q1_q2", "t1t2", "t1t2_q1_q2"):
        for sh in _subsets(("t", "q")):
            for op in (None, "step_callback", "step_callback_same"):
                cs.append(Case(f"s2s/{method}/share[{','.join(sh)}]/{op}", sphere2sphere, dict(method=method, shared=sh, op=op, seed=seed), timeout=T))
    for method in (("n", "n_q1_q2", "t1t2", "t1t2_q1_q2") if tier == "thorough" else ("n", "t1t2")):
        for k in range(6):
            cs.append(Case(f"s2s/{method}/differs_only_in_q{k}", sphere2sphere, dict(method=method, shared=("t", "q"), one=k, seed=seed), timeout=T))
    for sh in _subsets(("xi", "el")):
        cs.append(Case(f"mesh/share[{','.join(sh)}]", mesh, dict(shared=sh, seed=seed), timeout=T, sentinel=False))
    for k in (1, 2):
        for ea, eb in itertools.permutations((k - 1, k, None), 2):
            cs.append(Case(f"mesh/knot{k}/el={ea}-then-{eb}", mesh, dict(knot=(k, ea, eb), seed=seed), timeout=T, sentinel=False))
    return cs
