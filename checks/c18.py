"""C18 Nonsmooth integrators satisfy the discrete Signorini-Coulomb laws (projection stages)."""
import numpy as np
from symx.run import Case
from checks import lib

PROPERTY = "C18"
META = dict(
    level="proof",
    bounds="the real projection stages Moreau.prox, Rattle.prox1 / prox2 and BackwardEuler.prox on a point mass (and a rigid body, thorough) in frictional "
           "contact with a plane: per-step solver state (t_n, q_n, u_n, dt, prox parameters, iterate x, previous percussions) symbolic; every path of "
           "the real min / ball projections; one contact with a two-dimensional friction law.  Clauses: normal percussion >= 0; friction percussion in the "
           "Coulomb disk of the normal percussion it was projected with; AT A FIXED POINT of the projection (hypothesis P = update(P)): complementarity with "
           "the gap (position-level stages) or the Newton-restituted gap rate (velocity-level stages), disk feasibility, and for sliding contacts "
           "maximal dissipation (friction percussion antiparallel to the slip with magnitude mu P_N).  DualStormerVerlet: the real _step (LU variant) with its fixed-point helpers replaced by a stub returning an arbitrary iterate z whose percussions are a fixed point of the projection closure, "
           "point mass on a plane: Signorini with the restituted gap rate at the midpoint, Coulomb.  Moreau.step (real method, LU stub) on two point masses in sphere-sphere contact: xi_N0, xi_F0, W_N are the restituted "
           "gap rate / slip velocity / force direction at the step's midpoint configuration.  Outside: that the fixed-point loops reach a fixed "
           "point within tolerance; penetration 'beyond solver tolerance'; the kinetic-energy clause (a degree-4 inequality over the sqrt-normalised contact normal: the "
           "attempt did not decide within 15 minutes; its necessary ingredient, the restituted gap rate on the midpoint kinematics, is the Moreau.step clause above).",
    assumptions=["dt > 0, prox parameters > 0, mu > 0", "fixed-point hypothesis for the complementarity clauses"],
    trusted_base=[],
)


def _system(h, body="PM", seed=0):
    from cardillo import System
    from cardillo.discrete import Frame
    from cardillo.contacts import Sphere2Plane
    from cardillo.forces import Force
    rng = np.random.default_rng(seed + 5)
    b = lib.make_pm(rng, "b") if body == "PM" else lib.make_rb(rng, "b")
    fr = Frame(name="plane")
    mu = h.pos("mu")
    con = Sphere2Plane(fr, b, mu=mu, r=0.25, e_N=h.nonneg("eN"), e_F=0.0)
    sysm = System()
    sysm.add(b, fr, con, Force(np.array([0.0, 0.0, -9.81]), b))
    lib.assemble(sysm)
    return sysm, b, con, mu


def _fixed_point_clauses(h, tag, mu, PN, PF, gap, slip, r_note):
    """at a fixed point P = update(P): Signorini with `gap` (gap or restituted gap rate) and Coulomb with `slip`"""
    h.le(f"{tag}: P_N >= 0", 0.0, PN)
    h.le(f"{tag}: Signorini quantity >= 0 at a fixed point", 0.0, gap)
    h.eq(f"{tag}: complementarity P_N * gap = 0 at a fixed point", PN * gap, 0.0)
    h.le(f"{tag}: friction in the Coulomb disk at a fixed point", PF @ PF, (mu * PN) * (mu * PN))
    # maximal dissipation: P_F antiparallel to the slip; for sliding contacts with magnitude mu P_N
    h.eq(f"{tag}: friction parallel to the slip at a fixed point", PF[0] * slip[1] - PF[1] * slip[0], 0.0)
    h.le(f"{tag}: friction opposes the slip at a fixed point", PF @ slip, 0.0)
    s2 = slip @ slip
    h.eq(f"{tag}: sliding => |P_F| = mu P_N at a fixed point", s2 * (PF @ PF - (mu * PN) * (mu * PN)), 0.0)


def backward_euler(h, body="PM", fixed_point=False, seed=0):
    from cardillo.solver import BackwardEuler
    sysm, b, con, mu = _system(h, body, seed)
    with h.capture():
        sol = BackwardEuler(sysm, 1.0, 0.1)
    sol.tn, sol.qn, sol.un, sol.dt = h.real("t"), _q(h, sysm), h.vec("u", sysm.nu), h.pos("dt")
    sol.prox_r_N, sol.prox_r_F = h.arr([h.pos("rN")]), h.arr([h.pos("rF0"), h.pos("rF1")])
    x = h.vec("x", len(sol.xn))
    y0 = h.vec("y", 3)
    if fixed_point:
        y1 = sol.prox(x, y0)
        for i in range(3):
            h.assume_eq(y1[i], y0[i], "fixed point of the projection")
        qn1, un1 = sol.qn + x[:sysm.nq], sol.un + x[sysm.nq:sysm.nq + sysm.nu]
        gN = sysm.g_N(sol.tn + sol.dt, qn1)[0]
        slip = sysm.gamma_F(sol.tn + sol.dt, qn1, un1)
        _fixed_point_clauses(h, "BackwardEuler", mu, y1[0], y1[1:], gN, slip, None)
    else:
        y1 = sol.prox(x, y0)
        h.le("BackwardEuler: P_N >= 0", 0.0, y1[0])
        h.le("BackwardEuler: friction in the Coulomb disk of the projected normal percussion", y1[1:] @ y1[1:], (mu * y1[0]) * (mu * y1[0]))


def _system2(h, seed=0):
    """two point masses, each with its own frictional contact on the plane (different friction coefficients): global index sets differ from local ones"""
    from cardillo import System
    from cardillo.discrete import Frame
    from cardillo.contacts import Sphere2Plane
    rng = np.random.default_rng(seed + 6)
    a, b = lib.make_pm(rng, "a"), lib.make_pm(rng, "b")
    fr = Frame(name="plane")
    mu1, mu2 = h.pos("mu1"), h.pos("mu2")
    c1 = Sphere2Plane(fr, a, mu=mu1, r=0.25, e_N=0.0, e_F=0.0, name="c1")
    c2 = Sphere2Plane(fr, b, mu=mu2, r=0.125, e_N=0.0, e_F=0.0, name="c2")
    sysm = System()
    sysm.add(a, b, fr, c1, c2)
    lib.assemble(sysm)
    return sysm, (c1, c2), (mu1, mu2)


def two_contacts(h, solver="BackwardEuler", seed=0):
    """projection stage with TWO contacts: every friction percussion lies in the Coulomb disk of ITS OWN contact's normal percussion"""
    import cardillo.solver as S
    sysm, cons, mus = _system2(h, seed)
    with h.capture():
        sol = getattr(S, "Rattle" if solver.startswith("Rattle") else solver)(sysm, 1.0, 0.1)
    sol.tn, sol.qn, sol.un, sol.dt = h.real("t"), h.vec("q", sysm.nq), h.vec("u", sysm.nu), h.pos("dt")
    sol.prox_r_N = h.arr([h.pos("rN0"), h.pos("rN1")])
    sol.prox_r_F = h.arr([h.pos(f"rF{i}") for i in range(4)])
    y0 = h.vec("y", 6)
    if solver == "BackwardEuler":
        y1 = sol.prox(h.vec("x", len(sol.xn)), y0)
        PN_used = y1[:2]                      # friction is projected with the NEW normal percussions
    elif solver == "Rattle1":
        y1 = sol.prox1(h.vec("x", len(sol.x1n)), y0)
        PN_used = np.array([_max0(h, y0[0]), _max0(h, y0[1])], dtype=object if h.sym else float)      # stage 1 projects with the given ones
    else:
        raise ValueError(solver)
    for k, (c, mu) in enumerate(zip(cons, mus)):
        PF = y1[2 + c.la_FDOF]
        h.le(f"{solver}: contact {k}: P_N >= 0", 0.0, y1[c.la_NDOF[0]])
        h.le(f"{solver}: contact {k}: friction in the Coulomb disk of its own normal percussion", PF @ PF, (mu * PN_used[c.la_NDOF[0]]) * (mu * PN_used[c.la_NDOF[0]]))


def rattle(h, stage=1, body="PM", fixed_point=False, seed=0, active=True):
    from cardillo.solver import Rattle
    sysm, b, con, mu = _system(h, body, seed)
    with h.capture():
        sol = Rattle(sysm, 1.0, 0.1)
    sol.tn, sol.qn, sol.un, sol.dt = h.real("t"), _q(h, sysm), h.vec("u", sysm.nu), h.pos("dt")
    sol.prox_r_N, sol.prox_r_F = h.arr([h.pos("rN")]), h.arr([h.pos("rF0"), h.pos("rF1")])
    if stage == 1:
        x = h.vec("x", len(sol.x1n))
        y0 = h.vec("y", 3)
        y1 = sol.prox1(x, y0)
        if fixed_point:
            for i in range(3):
                h.assume_eq(y1[i], y0[i], "fixed point of the projection")
            qn1, un12 = x[:sysm.nq], x[sysm.nq:sysm.nq + sysm.nu]
            gN = sysm.g_N(sol.tn + sol.dt, qn1)[0]
            slip = sysm.gamma_F(sol.tn + sol.dt, qn1, un12)
            _fixed_point_clauses(h, "Rattle stage 1", mu, y1[0], y1[1:], gN, slip, None)
        else:
            h.le("Rattle stage 1: P_N >= 0", 0.0, y1[0])
            h.le("Rattle stage 1: friction in the Coulomb disk of the normal percussion it was projected with", y1[1:] @ y1[1:],
                 _max0(h, mu * y0[0]) * _max0(h, mu * y0[0]))
    else:
        sol.x1n = h.vec("x1", len(sol.x1n))
        sol.y1n = h.vec("y1", 3)
        sol.I_N = np.array([bool(active)])
        x2 = h.vec("x2", len(sol.x2n))
        y0 = h.vec("y", 3)
        y1 = sol.prox2(x2, y0)          # returns the stage-2 increment
        PN, PF = (sol.y1n + y1)[0], (sol.y1n + y1)[1:]
        if not sol.I_N[0]:
            h.eq("Rattle stage 2: a contact that is not closed gets no velocity-level normal percussion", PN, 0.0)
            return
        if fixed_point:
            for i in range(3):
                h.assume_eq(y1[i], y0[i], "fixed point of the projection")
            qn1, un1 = sol.x1n[:sysm.nq], x2[:sysm.nu]
            xiN = sysm.xi_N(sol.tn, sol.tn + sol.dt, sol.qn, qn1, sol.un, un1)[0]
            xiF = sysm.xi_F(sol.tn, sol.tn + sol.dt, sol.qn, qn1, sol.un, un1)
            _fixed_point_clauses(h, "Rattle stage 2", mu, PN, PF, xiN, xiF, None)
        else:
            h.le("Rattle stage 2: total P_N >= 0", 0.0, PN)


def moreau(h, body="PM", fixed_point=False, seed=0):
    from cardillo.solver import Moreau
    sysm, b, con, mu = _system(h, body, seed)
    with h.capture():
        sol = Moreau(sysm, 1.0, 0.1)
    sol.dt = h.pos("dt")
    nu = sysm.nu
    sol.W_N = h.mat("WN", nu, 1)
    sol.W_F = h.mat("WF", nu, 2)
    sol.xi_N0 = h.vec("xiN0", 1)
    sol.xi_F0 = h.vec("xiF0", 2)
    sol.prox_r_N = h.arr([h.pos("rN")])
    sol.prox_r_F = h.arr([h.pos("rF0"), h.pos("rF1")])
    sol.global_active_friction_laws = [(np.array([0]), np.array([0, 1]), con.friction_laws[0][2])]
    un1 = h.vec("u1", nu)
    PN0, PF0 = h.vec("PN", 1), h.vec("PF", 2)
    PN, PF = sol.prox(un1, PN0.copy(), PF0.copy())
    if fixed_point:
        h.assume_eq(PN[0], PN0[0], "fixed point")
        for i in range(2):
            h.assume_eq(PF[i], PF0[i], "fixed point")
        xiN = (sol.W_N.T @ un1 + sol.xi_N0)[0]
        xiF = sol.W_F.T @ un1 + sol.xi_F0
        _fixed_point_clauses(h, "Moreau", mu, PN[0], PF, xiN, xiF, None)
    else:
        h.le("Moreau: P_N >= 0", 0.0, PN[0])
        h.le("Moreau: friction in the Coulomb disk of the projected normal percussion", PF @ PF, (mu * PN[0]) * (mu * PN[0]))


def moreau_xi(h, seed=0):
    """the real Moreau.step on two point masses in sphere-sphere contact (normal depends on q): the quantities the projection makes complementary
    to the percussions are the Newton-restituted gap rate / slip velocity, all evaluated with the kinematics of the step's midpoint configuration"""
    from cardillo import System
    from cardillo.discrete import PointMass
    from cardillo.contacts import Sphere2Sphere
    from cardillo.solver import Moreau, SolverOptions
    eN = h.nonneg("eN")
    pm1 = PointMass(1.0, q0=np.array([0.0, 0.0, 0.0]), u0=np.zeros(3), name="pm1")
    pm2 = PointMass(2.0, q0=np.array([0.5, 0.25, 0.0]), u0=np.zeros(3), name="pm2")
    con = Sphere2Sphere(pm1, pm2, 0.25, 0.25, 0.0, e_N=eN, e_F=0.0, name="con")       # frictionless: the normal direction is the subject
    sysm = System()
    sysm.add(pm1, pm2, con)
    lib.assemble(sysm)
    with h.capture():
        sol = Moreau(sysm, 1.0, 0.125, options=SolverOptions(fixed_point_max_iter=1, continue_with_unconverged=True))
    tn, qn, un = h.real("t"), h.vec("q", sysm.nq), h.vec("u", sysm.nu)
    dt = h.pos("dt")
    sol.dt, sol.tn, sol.qn, sol.un = dt, tn, qn, un
    if h.sym:
        from symx import shims
        sysm._M0 = shims.SymMat(np.asarray(sysm._M0.toarray(), dtype=object))
    sol.xi_N0 = None
    with h.capture():
        sol.step()
    if sol.xi_N0 is None or len(sol.I_N) == 0:
        from symx.harness import Skip
        raise Skip("contact not active on this path")
    tm, qm = sol.tn12, sol.qn12
    zero = 0 * un
    h.eq("Moreau: xi_N0 + W_N^T u_{n+1} is the Newton-restituted gap rate at the midpoint configuration",
         sol.xi_N0, eN * sysm.g_N_dot(tm, qm, un) + sysm.g_N_dot(tm, qm, zero))
    h.eq("Moreau: W_N is evaluated at the midpoint configuration", np.asarray(sol.W_N.toarray()), np.asarray(sysm.W_N(tm, qm).toarray()))


def dsv(h, body="PM", seed=0):
    """DualStormerVerlet: the real _step with the fixed-point helpers replaced by their contract (arbitrary z with fun(z) = z): the stored
    percussions satisfy Signorini (with the restituted gap rate at the midpoint) and Coulomb"""
    from checks import c17
    sysm, b, con, mu = _system(h, "RB" if body == "RBc" else body, seed)
    if body == "RBc":
        # rigid body (non-spherical inertia, contact point off the centre of mass) in a CONCRETE pose without spin at t_n: the two tangential
        # prox parameters differ, everything else (velocity, percussions, the iterate z) stays symbolic
        tn, qn = h.real("t"), np.array([0.0, 0.0, 0.25, 1.0, 0.0, 0.0, 0.0])
        un = np.concatenate([h.vec("v", 3), np.zeros(3)])
    else:
        tn, qn, un = h.real("t"), _q(h, sysm), h.vec("u", sysm.nu)
    dt = h.pos("dt")
    sol = c17.dsv_setup(h, sysm, tn, qn, un, dt)
    if h.sym:
        from symx import shims
        sol.M = shims.SymMat(np.asarray(sol.M.toarray(), dtype=object))
    info = c17.dsv_run_step(h, sol, midpoint_by_evaluation=(body == "RBc"), hypothesis="percussions")
    u1, PN, PF = sol.sol_u[-1], sol.sol_P_N[-1], sol.sol_P_F[-1]
    tm, qm = tn + 0.5 * dt, info["qm"]
    xiN = sysm.xi_N(tm, tm, qm, qm, un, u1)[0]
    xiF = sysm.xi_F(tm, tm, qm, qm, un, u1)
    gN = sysm.g_N(tm, qm)[0]
    h.le("DSV: P_N >= 0", 0.0, PN[0])
    if h.sym:
        import z3
        from symx.core import B
        t_ = lambda bb: bb.t if isinstance(bb, B) else z3.BoolVal(bool(bb))
        active = t_(gN <= 0)
        h.holds("DSV: open contact (midpoint gap > 0) carries no percussion", z3.Implies(z3.Not(active), t_(PN[0] == 0)))
        h.holds("DSV: closed contact: restituted gap rate >= 0 at a fixed point", z3.Implies(active, t_(xiN >= 0)))
        h.holds("DSV: closed contact: complementarity P_N xi_N = 0 at a fixed point", z3.Implies(active, t_(PN[0] * xiN == 0)))
    else:
        tol = 1e-5
        act = gN <= 0
        h.holds("DSV: open contact (midpoint gap > 0) carries no percussion", act or abs(PN[0]) <= tol)
        h.holds("DSV: closed contact: restituted gap rate >= 0 at a fixed point", (not act) or xiN >= -tol)
        h.holds("DSV: closed contact: complementarity P_N xi_N = 0 at a fixed point", (not act) or abs(PN[0] * xiN) <= tol)
    h.le("DSV: friction in the Coulomb disk at a fixed point", PF @ PF, (mu * PN[0]) * (mu * PN[0]) * (1 + 1e-9) + (0.0 if h.sym else 1e-9))
    if h.sym:
        h.eq("DSV: friction parallel to the slip at a fixed point", PF[0] * xiF[1] - PF[1] * xiF[0], 0.0)
        h.le("DSV: friction opposes the slip at a fixed point", PF @ xiF, 0.0)
        h.eq("DSV: sliding => |P_F| = mu P_N at a fixed point", (xiF @ xiF) * (PF @ PF - (mu * PN[0]) * (mu * PN[0])), 0.0)
    else:
        h.eq("DSV: friction parallel to the slip at a fixed point", PF[0] * xiF[1] - PF[1] * xiF[0], 0.0, tol=1e-5)
        h.le("DSV: friction opposes the slip at a fixed point", PF @ xiF, 1e-6)
        h.eq("DSV: sliding => |P_F| = mu P_N at a fixed point", (xiF @ xiF) * (PF @ PF - (mu * PN[0]) * (mu * PN[0])), 0.0, tol=1e-5)


def _q(h, sysm):
    q = h.vec("q", sysm.nq)
    if sysm.nq == 7:
        h.assume(q[3:] @ q[3:] > 0, "quaternion nonzero")
    return q


def _max0(h, x):
    if h.sym:
        from symx import symnp
        return symnp.maximum(0.0, x)
    return max(0.0, x)


def cases(tier, seed):
    T = 120 if tier == "quick" else 900
    cs = []
    bodies = ("PM",) if tier == "quick" else ("PM", "RB")
    for body in bodies:
        for fp in (False, True):
            tag = "fixed_point" if fp else "feasible"
            cs.append(Case(f"BackwardEuler/{body}/{tag}", backward_euler, dict(body=body, fixed_point=fp, seed=seed), timeout=T, hard=T * 10, max_paths=64))
            cs.append(Case(f"Rattle1/{body}/{tag}", rattle, dict(stage=1, body=body, fixed_point=fp, seed=seed), timeout=T, hard=T * 10, max_paths=64))
            cs.append(Case(f"Rattle2/{body}/{tag}", rattle, dict(stage=2, body=body, fixed_point=fp, seed=seed), timeout=T, hard=T * 10, max_paths=64))
            cs.append(Case(f"Moreau/{body}/{tag}", moreau, dict(body=body, fixed_point=fp, seed=seed), timeout=T, hard=T * 10, max_paths=64))
        cs.append(Case(f"Rattle2/{body}/inactive", rattle, dict(stage=2, body=body, fixed_point=False, seed=seed, active=False), timeout=T))
    for body in (("PM", "RBc") if tier == "quick" else ("PM", "RBc", "RB")):
        cs.append(Case(f"DualStormerVerlet/{body}/fixed_point", dsv, dict(body=body, seed=seed), timeout=T, hard=T * 10, max_paths=64))
    for solver in ("BackwardEuler", "Rattle1"):
        cs.append(Case(f"{solver}/two_contacts/feasible", two_contacts, dict(solver=solver, seed=seed), timeout=T, hard=T * 10, max_paths=256))
    cs.append(Case("Moreau/step/sphere-sphere/restituted_gap_rate", moreau_xi, dict(seed=seed), timeout=T, hard=T * 25, max_paths=64))
    return cs
