"""C10 Cosserat rod internal forces are stress-free, objective and self-equilibrated."""
import numpy as np
from symx.run import Case
from checks import lib

PROPERTY = "C10"
META = dict(
    level="proof",
    bounds="interpolation {Quaternion, R12} x {displacement-based, mixed, constrained (0,1,2) / (1,2) / curvature sets (3,4,5) and (4,5)} x polynomial degree 1 x element count {1, 2}, "
           "reference configuration Q fully symbolic (nonzero nodal quaternions), state q symbolic (non-unit quaternions), rigid motion = symbolic "
           "translation c and quaternion p_R != 0 applied to all nodes; Simo1986 material with concrete stiffnesses.  thorough: p = 2.  Outside: the SE3 interpolation (its Log_SE3 takes the arccos of "
           "a term that is not the cosine of a registered angle: not encodable with the Weierstrass libm model), other materials, nelement > 2.",
    assumptions=["nodal quaternions nonzero", "the reference tangent length J = |B_Gamma_bar(Q)| is a sqrt atom (nonzero denominator)",
                 "Gauss points / weights and Lagrange basis values are the repo's own floats taken as exact rationals"],
    trusted_base=["Cramer / diagonal inverse shim for the element compliance matrix"],
)


def _rod(h, form, interp, nel, p, Q="symbolic", seed=0):
    mixed = form.startswith("mixed")
    cons = [int(ch) for ch in form.split("_c")[1]] if "_c" in form else None      # e.g. "db_c345": twist and both bendings constrained
    return lib.make_rod(h, interp=interp, mixed=mixed, constraints=cons, p=p, nel=nel, Q=Q, seed=seed)


def reference(h, form="db", interp="Quaternion", nel=1, p=1, seed=0, via_set=False):
    if via_set:
        # the reference configuration is changed AFTER construction through the public set_reference_strains
        rod, Q0, nn = _rod(h, form, interp, nel, p, Q="curved", seed=seed)
        Q = h.vec("Q", 7 * nn)
        for k in range(nn):
            P = np.array([Q[3 * nn + k + i * nn] for i in range(4)], dtype=object if h.sym else float)
            h.assume(P @ P > 0, "reference quaternion nonzero")
        rod.set_reference_strains(Q)
    else:
        rod, Q, nn = _rod(h, form, interp, nel, p)
    t = 0.0
    u0 = np.zeros(rod.nu)
    h.eq("E_pot(Q) = 0", rod.E_pot(t, Q), 0.0)
    if hasattr(rod, "la_c"):
        la0 = np.zeros(rod.nla_c)
        h.eq("c(Q, 0) = 0 (compliance residual at zero stress)", rod.c(t, Q, u0, la0), np.zeros(rod.nla_c))
        h.eq("la_c(Q) = 0", rod.la_c(t, Q, u0), np.zeros(rod.nla_c))
        h.eq("h(Q, 0) = 0", rod.h(t, Q, u0), np.zeros(rod.nu))
        h.eq("W_c(Q) la_c(Q) = 0", rod.W_c(t, Q).toarray() @ rod.la_c(t, Q, u0), np.zeros(rod.nu))
    else:
        h.eq("h(Q, 0) = 0 (internal forces vanish in the reference configuration)", rod.h(t, Q, u0), np.zeros(rod.nu))
    if hasattr(rod, "g"):
        h.eq("g(Q) = 0 (internal constraints satisfied in the reference configuration)", rod.g(t, Q), np.zeros(rod.nla_g))


def objectivity(h, form="db", interp="Quaternion", nel=1, p=1, seed=0, axis=None):
    rod, Q, nn = _rod(h, form, interp, nel, p, Q="curved", seed=seed)
    t = 0.0
    q = lib.rod_state(h, rod, nn)
    q2, c, A = lib.rod_rigid_motion(h, rod, q, nn, axis=axis)
    u0 = np.zeros(rod.nu)
    if axis is not None:
        # the energy is quadratic in the strains: decided per generator of the rotation group (+ translation)
        h.eq(f"E_pot invariant under translation + rotation about e_{axis}", rod.E_pot(t, q2), rod.E_pot(t, q))
        return
    if hasattr(rod, "la_c"):
        la = h.vec("la", rod.nla_c)
        h.eq("compliance residual invariant under a superposed rigid motion", rod.c(t, q2, u0, la), rod.c(t, q, u0, la))
    if hasattr(rod, "g"):
        h.eq("internal constraint residual invariant under a superposed rigid motion", rod.g(t, q2), rod.g(t, q))
    # translation only: internal forces unchanged
    q3 = q.copy()
    for k in range(nn):
        q3[rod.nodalDOF_r[k]] = q[rod.nodalDOF_r[k]] + c
    if not hasattr(rod, "la_c"):
        h.eq("internal forces invariant under translation", rod.h(t, q3, u0), rod.h(t, q, u0))
    else:
        la = h.vec("la2", rod.nla_c)
        h.eq("generalized internal forces W_c la_c invariant under translation", rod.W_c(t, q3).toarray() @ la, rod.W_c(t, q).toarray() @ la)
    if hasattr(rod, "g"):
        lg = h.vec("lg", rod.nla_g)
        h.eq("constraint forces W_g la_g invariant under translation", rod.W_g(t, q3).toarray() @ lg, rod.W_g(t, q).toarray() @ lg)


def resultant(h, form="db", interp="Quaternion", nel=1, p=1, seed=0):
    rod, Q, nn = _rod(h, form, interp, nel, p, Q="curved", seed=seed)
    t = 0.0
    q = lib.rod_state(h, rod, nn)
    u0 = np.zeros(rod.nu)
    if hasattr(rod, "la_c"):
        la = h.vec("la", rod.nla_c)
        f = rod.W_c(t, q).toarray() @ la
    else:
        f = rod.h(t, q, u0)
    res = np.zeros(3, dtype=object if h.sym else float)
    for k in range(nn):
        res = res + f[rod.nodalDOF_r_u[k]]
    h.eq("internal nodal forces have zero resultant", res, np.zeros(3))
    if hasattr(rod, "g"):
        lg = h.vec("lg", rod.nla_g)
        fg = rod.W_g(t, q).toarray() @ lg
        resg = np.zeros(3, dtype=object if h.sym else float)
        for k in range(nn):
            resg = resg + fg[rod.nodalDOF_r_u[k]]
        h.eq("internal constraint forces have zero resultant", resg, np.zeros(3))


FORMS = ("db", "mixed", "db_c012", "mixed_c12")


def cases(tier, seed):
    T = 120 if tier == "quick" else 900
    cs = []
    grid = [("Quaternion", 1), ("R12", 1)]
    if tier == "thorough":
        grid += [("Quaternion", 2), ("R12", 2)]
    for interp, p in grid:
        for form in FORMS:
            for nel in ((1, 2) if p == 1 else (1,)):
                tag = f"{interp}/p{p}/{form}/nel{nel}"
                cs.append(Case(f"reference/{tag}", reference, dict(form=form, interp=interp, nel=nel, p=p, seed=seed), timeout=T, hard=T * 8))
                cs.append(Case(f"objectivity/{tag}", objectivity, dict(form=form, interp=interp, nel=nel, p=p, seed=seed), timeout=T, hard=T * 8))
                # the strain energy is a sum of element energies of identical structure: the (degree-4) invariance of the energy
                # itself is decided on one element of the Quaternion interpolation in the quick tier, everything else in thorough
                if form in ("db", "mixed_c12") and (tier == "thorough" or (interp == "Quaternion" and nel == 1)):
                    for ax in range(3):
                        cs.append(Case(f"objectivity/{tag}/E_pot/axis{ax}", objectivity, dict(form=form, interp=interp, nel=nel, p=p, seed=seed, axis=ax), timeout=max(T, 400), hard=max(T, 400) * 3))
                if form == "db":
                    # curvature components in the internal-constraint set (the reference curvature enters the residual)
                    for f2 in (("db_c345", "mixed_c45") if nel == 1 or tier == "thorough" else ()):
                        cs.append(Case(f"reference/{interp}/p{p}/{f2}/nel{nel}", reference, dict(form=f2, interp=interp, nel=nel, p=p, seed=seed), timeout=T, hard=T * 8))
                        cs.append(Case(f"objectivity/{interp}/p{p}/{f2}/nel{nel}", objectivity, dict(form=f2, interp=interp, nel=nel, p=p, seed=seed), timeout=T, hard=T * 8))
                if nel == 1 and form in ("db", "mixed"):
                    cs.append(Case(f"reference/{tag}/via_set_reference_strains", reference, dict(form=form, interp=interp, nel=nel, p=p, seed=seed, via_set=True), timeout=T, hard=T * 8))
                cs.append(Case(f"resultant/{tag}", resultant, dict(form=form, interp=interp, nel=nel, p=p, seed=seed), timeout=T, hard=T * 8))
    return cs
