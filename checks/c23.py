"""C23 Static solvers return equilibria and are frame-indifferent (residual rows, Jacobian, equivariance)."""
import numpy as np
from symx.run import Case
from checks import lib

PROPERTY = "C23"
META = dict(
    level="proof",
    bounds="Newton.fun / Newton.jac and Riks.R on grid systems {rigid body on a spherical joint to a frame with a load-proportional force; clamped "
           "quaternion-rod cantilever (1 element, degree 1, displacement-based and mixed) with a load-proportional tip force and moment}: (a) every residual "
           "row is identically static equilibrium h + W_g la_g + W_c la_c (+ W_N la_N), g, c, g_S evaluated independently at the same (q, load factor); "
           "with the fsolve contract (C22) a converged load step therefore satisfies them within the tolerance; (b) jac is the derivative of fun, per "
           "basis direction; (c) truncation / continuation behaviour is explored in C21 (only converged load steps are returned, with a warning); "
           "(d) equivariance: for the rigidly moved problem (support pose, load, reference configuration and state moved by a symbolic rigid motion) the "
           "residual is the correspondingly rotated residual, so equilibria map to equilibria; (e) Riks.R rows on a point mass with contact, "
           "compliance spring and distance constraint (incl. W_N la_N, min(la_N, g_N), arc-length row); (f) bookkeeping of the real Newton.solve (3 load "
           "steps) and Riks.solve (4 points) with fsolve replaced by its contract stub returning SYMBOLIC vectors: every returned point is exactly the "
           "result of the nonlinear solve for its own load level and every load step is solved.  Outside: that Newton / Riks FIND an equilibrium, the "
           "quality of Riks' arc-length control.",
    assumptions=["quaternions nonzero"],
    trusted_base=["fsolve contract proved in C22 (composition argued, not mechanised)"],
)


def build(h, which, move=None, seed=0):
    """move = (c, A, pR): the whole problem (support, load, reference configuration) moved rigidly"""
    from cardillo import System
    from cardillo.discrete import Frame
    from cardillo.forces import Force, B_Moment, Moment
    import cardillo.constraints as C
    rng = np.random.default_rng(seed + 33)
    eye = np.eye(3)
    c, A = (np.zeros(3), eye) if move is None else (move[0], move[1])
    F0 = np.array([0.5, -0.25, 1.0])
    r_fr = np.array([0.25, 0.5, 0.0])
    fr = Frame(r_OP=c + A @ r_fr, A_IB=A, name="support")
    sysm = System()
    if which == "rb":
        b = lib.make_rb(rng, "b")
        # exact rational initial pose (float-normalised quaternions would make the two problems differ by rounding)
        r0 = np.array([0.5, -0.25, 0.75])
        P0 = h.arr([h.const(x) for x in lib.int_quat(np.random.default_rng(seed + 34))])
        rJ = r0 + np.array([0.25, 0.0, 0.0])
        if move is None:
            b.q0 = np.concatenate([h.arr([h.const(x) for x in r0]), P0])
            j = C.Spherical(fr, b, r_OJ0=rJ)
        else:
            from cardillo.math import quatprod
            b.q0 = np.concatenate([c + A @ r0, quatprod(move[2], P0)])
            j = C.Spherical(fr, b, r_OJ0=c + A @ rJ)
        f = Force(lambda t: t * (A @ F0), b, B_r_CP=np.array([0.0, 0.25, 0.125]))
        # a moment given in the inertial basis moves with the problem
        mo = Moment(lambda t: t * (A @ np.array([0.25, -0.5, 0.125])), b)
        sysm.add(fr, b, j, f, mo)
        body = b
    else:
        mixed = which == "rod_mixed"
        Q = "curved"
        rod, Qv, nn = lib.make_rod(h, interp="Quaternion", mixed=mixed, p=1, nel=1, Q=Q, seed=seed, assemble=False)
        # exact rational reference configuration (dyadic values), see above
        Qv = h.arr([h.const(x) for x in np.asarray(Qv, dtype=float)])
        rod, Qv, nn = lib.make_rod(h, interp="Quaternion", mixed=mixed, p=1, nel=1, Q=Qv, seed=seed, assemble=False)
        if move is not None:
            from cardillo.math import quatprod
            Qm = np.array(Qv, dtype=object if h.sym else float).copy()
            for k in range(nn):
                Qm[rod.nodalDOF_r[k]] = c + A @ Qv[rod.nodalDOF_r[k]]
                Qm[rod.nodalDOF_p[k]] = quatprod(move[2], Qv[rod.nodalDOF_p[k]])
            rod, Qv, nn = lib.make_rod(h, interp="Quaternion", mixed=mixed, p=1, nel=1, Q=Qm, seed=seed, assemble=False)
        rc = C.RigidConnection(fr, rod, xi2=0.0)
        f = Force(lambda t: t * (A @ F0), rod, xi=1.0)
        m = B_Moment(lambda t: t * np.array([0.25, 0.5, -0.125]), rod, xi=1.0)
        sysm.add(rod, fr, rc, f, m)
        body = rod
    lib.assemble(sysm)
    return sysm, body


def _x(h, sysm, tag=""):
    q = h.vec(tag + "q", sysm.nq)
    for cnt in sysm.contributions:
        if hasattr(cnt, "nodalDOF_p"):
            for k in range(len(cnt.nodalDOF_p)):
                P = q[cnt.qDOF[cnt.nodalDOF_p[k]]]
                h.assume(P @ P > 0, "nodal quaternion nonzero")
        elif getattr(cnt, "nq", 0) == 7:
            h.assume(q[cnt.qDOF[3:7]] @ q[cnt.qDOF[3:7]] > 0, "quaternion nonzero")
    return q, h.vec(tag + "lg", sysm.nla_g), h.vec(tag + "lc", sysm.nla_c)


def rows(h, which="rb", solver="Newton", seed=0):
    from cardillo.solver import Newton, Riks
    sysm, body = build(h, which, seed=seed)
    q, lg, lc = _x(h, sysm)
    t = h.real("load")
    u0 = np.zeros(sysm.nu)
    W_g = np.asarray(sysm.W_g(t, q).toarray())
    W_c = np.asarray(sysm.W_c(t, q).toarray()) if sysm.nla_c else np.zeros((sysm.nu, 0))
    eqm = sysm.h(t, q, u0) + W_g @ lg + (W_c @ lc if sysm.nla_c else 0.0)
    with h.capture():
        if solver == "Newton":
            S = Newton(sysm, n_load_steps=2, verbose=False)
            F = S.fun(np.concatenate([q, lg, lc]), t)
            sf = S.split_f
        else:
            S = Riks(sysm)
            F = S.R(np.concatenate([q, lg, lc, [t]]))[:-1] if hasattr(S, "R") else None
            sf = S.split_f if hasattr(S, "split_f") else None
    if F is None or sf is None:
        h.holds("Riks exposes R / split_f", False)
        return
    h.eq(f"{solver}: equilibrium rows = h + W_g la_g + W_c la_c", F[:sf[0]], eqm)
    h.eq(f"{solver}: constraint rows = g", F[sf[0]:sf[1]], np.atleast_1d(sysm.g(t, q)))
    if sysm.nla_c:
        h.eq(f"{solver}: compliance rows = c", F[sf[1]:sf[2]], sysm.c(t, q, u0, lc))
    h.eq(f"{solver}: quaternion rows = g_S", F[sf[2]:sf[3]], sysm.g_S(t, q))


class _Res:
    pass


def _fsolve_stub(h, calls, make_x, fail_at=None):
    """contract stub for cardillo.math.fsolve (proved in C22): returns SOME vector flagged converged; the k-th call returns make_x(k, x0);
    call number fail_at reports failure (success = False)"""
    def stub(fun, x0, jac=None, fun_args=(), jac_args=(), options=None, **kw):
        k = len(calls)
        r = _Res()
        r.x = make_x(k, x0)
        r.success, r.nit, r.error, r.fun, r.njev, r.nfev = (k != fail_at), 2, 0.0, None, 1, 1
        calls.append(dict(x0=np.array(x0, copy=True), fun_args=tuple(fun_args), x=np.array(r.x, copy=True), options=options))
        return r
    return stub


def _contact_problem(h):
    """point mass over a plane (contact), compliance-form spring to the origin, distance constraint to an anchor, load-proportional force"""
    from cardillo import System
    from cardillo.discrete import PointMass, Frame
    from cardillo.forces import Force
    from cardillo.contacts import Sphere2Plane
    from cardillo.interactions import TwoPointInteraction
    from cardillo.force_laws import Spring
    import cardillo.constraints as C
    pm = PointMass(1.0, q0=np.array([0.5, 0.25, 0.25]), name="pm")
    plane, anchor = Frame(name="plane"), Frame(r_OP=np.array([-0.5, 0.0, 1.0]), name="anchor")
    sysm = System()
    sp = Spring(TwoPointInteraction(sysm.origin, pm, name="tp"), 4.0, l_ref=0.5, compliance_form=True, name="spring")
    sysm.add(pm, plane, anchor, Sphere2Plane(plane, pm, mu=0.0, r=0.25, name="contact"), C.FixedDistance(anchor, pm), sp,
             Force(lambda t: t * np.array([0.5, -0.25, -1.0]), pm, name="load"))
    lib.assemble(sysm)
    return sysm


def riks_rows(h, seed=0):
    """every row of the arc-length solver's residual is the static equilibrium incl. contact forces / c / g / g_S / min(la_N, g_N) / arc-length equation"""
    import cardillo.solver.statics as st
    sysm = _contact_problem(h)
    real = st.fsolve
    st.fsolve = _fsolve_stub(h, [], lambda k, x0: np.asarray(x0, dtype=float) + 0.125)
    try:
        with h.capture():
            S = st.Riks(sysm, la_arc0=0.125)
    finally:
        st.fsolve = real
    q, lc, lg, lN, t = h.vec("q", sysm.nq), h.vec("lc", sysm.nla_c), h.vec("lg", sysm.nla_g), h.vec("lN", sysm.nla_N), h.real("load")
    x = np.concatenate([q, lc, lg, lN, [t]])
    u0 = np.zeros(sysm.nu)
    with h.capture():
        R = S.R(x)
    sr = S.split_residual
    dense = lambda A: np.asarray(A.toarray())
    eqm = sysm.h(t, q, u0) + dense(sysm.W_c(t, q)) @ lc + dense(sysm.W_g(t, q)) @ lg + dense(sysm.W_N(t, q)) @ lN
    h.eq("Riks: equilibrium rows = h + W_c la_c + W_g la_g + W_N la_N", R[:sr[0]], eqm)
    h.eq("Riks: compliance rows = c", R[sr[0]:sr[1]], sysm.c(t, q, u0, lc))
    h.eq("Riks: constraint rows = g", R[sr[1]:sr[2]], np.atleast_1d(sysm.g(t, q)))
    h.eq("Riks: quaternion rows = g_S", R[sr[2]:sr[3]], sysm.g_S(t, q))
    gN = sysm.g_N(t, q)
    for i in range(sysm.nla_N):
        r = R[sr[3] + i]
        if h.sym:
            import z3
            from symx.core import B
            t_ = lambda b: b.t if isinstance(b, B) else z3.BoolVal(bool(b))
            h.holds(f"Riks: Signorini row {i} = min(la_N, g_N)", z3.And(t_(r <= lN[i]), t_(r <= gN[i]), z3.Or(t_(r == lN[i]), t_(r == gN[i]))))
        else:
            h.holds(f"Riks: Signorini row {i} = min(la_N, g_N)", abs(r - min(lN[i], gN[i])) < 1e-12)
    dq = q - S.xk[:sysm.nq]
    h.eq("Riks: arc-length row = |q - q_k|^2 - ds^2", R[-1], dq @ dq - S.ds ** 2)


def stored_points(h, solver="Newton", seed=0, fail_at=None):
    """the real solve() with fsolve replaced by its contract stub (arbitrary converged result per call): every returned point is exactly the result
    of the nonlinear solve for ITS load level (not a predictor, not an initial guess, not overwritten later), and every load step was solved"""
    import cardillo.solver.statics as st
    from cardillo.solver import SolverOptions
    sysm = _contact_problem(h)
    calls = []
    real = st.fsolve
    nx = sysm.nq + sysm.nla_c + sysm.nla_g + sysm.nla_N
    if solver == "Newton":
        make_x = lambda k, x0: h.vec(f"x{k}_", nx)
    else:
        # arc-length parameter (last entry) concrete so that the loop's exit test is decided: 3 points inside the span, the 4th outside
        las = [0.125, 0.25, 0.5, 0.875, 1.25]
        make_x = lambda k, x0: (np.asarray(x0, dtype=float) + 0.125 if k == 0 else np.concatenate([h.vec(f"x{k}_", nx), [las[min(k, len(las) - 1)]]]))
    st.fsolve = _fsolve_stub(h, calls, make_x, fail_at=fail_at)
    # the user's solver options (tolerances) must reach every nonlinear solve
    opts = SolverOptions(newton_atol=h.pos("atol"), newton_rtol=h.pos("rtol"))
    try:
        with h.capture() as cap:
            if solver == "Newton":
                S = st.Newton(sysm, n_load_steps=3, verbose=False, options=opts)
            else:
                S = st.Riks(sysm, la_arc0=0.125, la_arc_span=[-1.0, 1.0], scale_exponent=None, options=opts)
            out = S.solve()
    finally:
        st.fsolve = real
    nq = sysm.nq
    for k, c in enumerate(calls):
        h.holds(f"{solver}: nonlinear solve {k} receives the user's solver options (tolerances)", c["options"] is opts)
    if fail_at is not None:
        # load step fail_at does not converge (default: do not continue): only the converged steps before it are returned, with a warning
        said = [w for w in cap["warnings"] if "not converged" in w.lower()]
        h.holds("Newton: a run that stops early says so", bool(said))
        h.holds("Newton: only the load steps solved before the failing one are returned", len(out.t) == fail_at, info=f"returned {len(out.t)}, failing step {fail_at}")
        for i in range(min(len(out.t), fail_at)):
            h.eq(f"Newton: returned q[{i}] is the result of the solve for t_{i}", out.q[i], calls[i]["x"][:nq])
        return
    if solver == "Newton":
        h.holds("Newton: one nonlinear solve per load step, every load step solved", len(calls) == len(S.load_steps) and len(out.t) == len(S.load_steps))
        for i, c in enumerate(calls):
            h.holds(f"Newton: solve {i} is for load level t_{i}", len(c["fun_args"]) == 1 and float(c["fun_args"][0]) == float(S.load_steps[i]))
            h.eq(f"Newton: returned q[{i}] is the result of the solve for t_{i}", out.q[i], c["x"][:nq])
            h.eq(f"Newton: returned la_g[{i}] is the result of the solve for t_{i}", out.la_g[i], c["x"][nq:nq + sysm.nla_g])
            h.eq(f"Newton: returned t[{i}] = t_{i}", out.t[i], S.load_steps[i])
    else:
        pts = calls[1:]         # (the first solve, in the constructor, fixes the initial arc length)
        h.holds("Riks: initial point plus one returned point per nonlinear solve", len(out.t) == len(pts) + 1)
        h.eq("Riks: returned q[0] is the result of the initial solve (equilibrium for la_arc0)", out.q[0], calls[0]["x"][:nq])
        h.eq("Riks: returned load factor [0] is la_arc0", out.t[0], 0.125)
        for i, c in enumerate(pts):
            h.eq(f"Riks: returned q[{i + 1}] is the result of solve {i + 1}", out.q[i + 1], c["x"][:nq])
            h.eq(f"Riks: returned load factor [{i + 1}] is the result of solve {i + 1}", out.t[i + 1], c["x"][-1])
            h.eq(f"Riks: returned la_g[{i + 1}] is the result of solve {i + 1}", out.la_g[i + 1], c["x"][nq + sysm.nla_c:nq + sysm.nla_c + sysm.nla_g])


def jacobian(h, which="rb", k=0, seed=0):
    from cardillo.solver import Newton
    sysm, body = build(h, which, seed=seed)
    q, lg, lc = _x(h, sysm)
    t = h.real("load")
    x = np.concatenate([q, lg, lc])
    with h.capture():
        S = Newton(sysm, n_load_steps=2, verbose=False)
        dx = np.eye(len(x))[k]
        S.fun(x, t)            # (as in fsolve: the residual is evaluated before the Jacobian)
        J = S.jac(x, t)
        Jd = np.asarray(J.toarray()) if hasattr(J, "toarray") else np.asarray(J)
        h.eq("Newton.jac = d fun / d x", h.D(lambda x_: S.fun(x_, t), (x,), (dx,)), Jd @ dx)


def equivariance(h, which="rb", seed=0):
    from cardillo.solver import Newton
    from cardillo.math import Exp_SO3_quat, quatprod
    if which != "rb":
        h.option("exact_const_sqrt", True)
    c = h.vec("mc", 3)
    # unit quaternion of the rigid motion in stereographic coordinates (the quaternion rows g_S = |P|^2 - 1 are
    # invariant only under unit quaternions)
    xs = h.vec("ms", 3)
    n2 = xs @ xs
    pR = h.arr([(1 - n2) / (1 + n2), *(2 * xs / (1 + n2))])
    A = Exp_SO3_quat(pR)
    sysm, body = build(h, which, seed=seed)
    sysm2, body2 = build(h, which, move=(c, A, pR), seed=seed)
    q, lg, lc = _x(h, sysm)
    t = h.real("load")
    # moved state
    q2 = q.copy()
    if which == "rb":
        q2[:3] = c + A @ q[:3]
        q2[3:7] = quatprod(pR, q[3:7])
    else:
        for k in range(len(body.nodalDOF_p)):
            q2[body.nodalDOF_r[k]] = c + A @ q[body.nodalDOF_r[k]]
            q2[body.nodalDOF_p[k]] = quatprod(pR, q[body.nodalDOF_p[k]])
    # multipliers of position-type constraint rows rotate with the frame; orientation-type rows are invariant
    lg2 = lg.copy()
    lg2[:3] = A @ lg[:3]
    with h.capture():
        S1 = Newton(sysm, n_load_steps=2, verbose=False)
        S2 = Newton(sysm2, n_load_steps=2, verbose=False)
        F1 = S1.fun(np.concatenate([q, lg, lc]), t)
        F2 = S2.fun(np.concatenate([q2, lg2, lc]), t)
    sf = S1.split_f
    exp = F1.copy()
    if which == "rb":
        exp[:3] = A @ F1[:3]
    else:
        for k in range(len(body.nodalDOF_r_u)):
            exp[body.nodalDOF_r_u[k]] = A @ F1[body.nodalDOF_r_u[k]]
    exp[sf[0]:sf[0] + 3] = A @ F1[sf[0]:sf[0] + 3]
    h.eq("residual of the rigidly moved problem = rotated residual (equilibria map to equilibria)", F2, exp)


def cases(tier, seed):
    T = 120 if tier == "quick" else 900
    cs = []
    cs.append(Case("riks_rows/contact", riks_rows, dict(seed=seed), timeout=T, hard=T * 4, max_paths=16))
    for solver in ("Newton", "Riks"):
        cs.append(Case(f"stored_points/{solver}", stored_points, dict(solver=solver, seed=seed), timeout=T, hard=T * 4, sentinel=False, max_paths=16))
    for k in (1, 2, 3):
        cs.append(Case(f"stored_points/Newton/fails_at_step{k}", stored_points, dict(solver="Newton", seed=seed, fail_at=k), timeout=T, hard=T * 4, sentinel=False, max_paths=16))
    for which in ("rb", "rod_db", "rod_mixed"):
        cs.append(Case(f"rows/Newton/{which}", rows, dict(which=which, solver="Newton", seed=seed), timeout=T, sentinel=False))
        n = {"rb": 7 + 3, "rod_db": 14 + 6, "rod_mixed": 14 + 6 + 6}[which]
        rng = np.random.default_rng(seed + 1)
        dirs = range(n) if tier == "thorough" else sorted(int(x) for x in rng.choice(n, size=3, replace=False))
        for k in dirs:
            cs.append(Case(f"jac/{which}/dir{k}", jacobian, dict(which=which, k=k, seed=seed), timeout=T, hard=T * 8))
        # the rod's equivariance needs exact algebraic constants for the reference tangent lengths (sqrt atoms): thorough tier
        if which == "rb" or tier == "thorough":
            cs.append(Case(f"equivariance/{which}", equivariance, dict(which=which, seed=seed), timeout=T, hard=T * 4))
    return cs
