"""C03 SO(3)/SE(3) derivative routines are the derivatives of their maps (exact arithmetic)."""
import numpy as np
from symx.run import Case

PROPERTY = "C03"
META = dict(
    level="proof",
    bounds="rotation vectors by the cone parametrisation psi = lam(2p,2q,+-(1-p^2-q^2)), 0 < |psi| < pi (Weierstrass symbol w > 0), directions "
           "d psi = J(lam,p,q) (dlam,dp,dq) with free (dlam,dp,dq); psi = 0 exactly with a free direction; Log_SO3_A on general 3x3 matrices whose trace is "
           "tied to an angle in (0, pi); all nonzero quaternions.  Exactness in real arithmetic implies the property's tolerance clause; the behaviour of the float "
           "code for tiny nonzero |psi| (cancellation) is outside the encoding.",
    assumptions=["Weierstrass / cone parametrisations and solver-checked sqrt / arccos hints as in C02",
                 "directions in the image of the cone map's Jacobian (all of R^3 wherever that Jacobian is regular)"],
    trusted_base=["Weierstrass and cone parametrisations (DESIGN 2.4)"],
)


def _cone_in(h):
    lam, p, q = (h.nonneg("c_lam"), h.real("c_p"), h.real("c_q"))
    dl, dp, dq = h.real("dlam"), h.real("dp"), h.real("dq")
    return (lam, p, q), (dl, dp, dq)


def so3(h, which="Exp_SO3_psi", mirror=False):
    import cardillo.math.rotations as R
    x, dx = _cone_in(h)
    psi, a = h.cone_build(*x, chart="lt_pi", mirror=mirror)
    h.assume(x[0] > 0, "psi != 0")
    cone = lambda l_, p_, q_: h.cone_build(l_, p_, q_, mirror=mirror, register=False)[0]
    dpsi = h.D(cone, x, dx)
    if which == "Exp_SO3_psi":
        h.eq("Exp_SO3_psi", h.D(lambda *a_: R.Exp_SO3(cone(*a_)), x, dx), R.Exp_SO3_psi(psi) @ dpsi)
    elif which == "T_SO3_psi":
        h.eq("T_SO3_psi", h.D(lambda *a_: R.T_SO3(cone(*a_)), x, dx), R.T_SO3_psi(psi) @ dpsi)
    elif which == "T_SO3_inv_psi":
        h.eq("T_SO3_inv_psi", h.D(lambda *a_: R.T_SO3_inv(cone(*a_)), x, dx), R.T_SO3_inv_psi(psi) @ dpsi)
    elif which == "T_SO3_dot":
        h.eq("T_SO3_dot", h.D(lambda *a_: R.T_SO3(cone(*a_)), x, dx), R.T_SO3_dot(psi, dpsi))
        h.eq("T_SO3_dot = T_SO3_psi . psi_dot", R.T_SO3_dot(psi, dpsi), R.T_SO3_psi(psi) @ dpsi)


def at_zero(h):
    import cardillo.math.rotations as R
    psi = np.zeros(3)
    d = h.vec("d", 3)
    h.eq("Exp_SO3_psi at psi = 0", h.D(R.Exp_SO3, (psi,), (d,)), R.Exp_SO3_psi(psi) @ d)
    h.eq("T_SO3_psi at psi = 0", h.D(R.T_SO3, (psi,), (d,)), R.T_SO3_psi(psi) @ d)
    h.eq("T_SO3_inv_psi at psi = 0", h.D(R.T_SO3_inv, (psi,), (d,)), R.T_SO3_inv_psi(psi) @ d)
    h.eq("T_SO3_dot at psi = 0", h.D(R.T_SO3, (psi,), (d,)), R.T_SO3_dot(psi, d))


def log_A(h):
    import cardillo.math.rotations as R
    th = h.angle("th")
    if h.sym:
        from symx import core
        w = core.CTX.atoms[("w", th.v.n.get_id(), th.v.e)][1]
        core.CTX.axioms.extend(core.pi_axioms())
        core.CTX.assumes += [th.v.n > 0, th.v.n < core.PI, w > 0]
        core.CTX.sqrt_hints.append(th.sin())
    else:
        h.assume(0 < th < np.pi, "0 < theta < pi")
    a = h.mat("A", 3, 3)
    A = a.copy()
    A[2, 2] = 1.0 + 2.0 * np.cos(th) - a[0, 0] - a[1, 1]
    dA = h.mat("dA", 3, 3)
    h.eq("Log_SO3_A", h.D(R.Log_SO3, (A,), (dA,)), np.einsum("ijk,jk->i", R.Log_SO3_A(A), dA))


def se3(h, which="Exp_SE3_h", mirror=False, k=None, rl=None):
    import cardillo.math.rotations as R
    x, dx = _cone_in(h)
    if k is not None:
        dx = tuple(1.0 if i == k - 3 else 0.0 for i in range(3))
    psi, a = h.cone_build(*x, chart="lt_pi", mirror=mirror, upper=float(np.pi))
    h.assume(x[0] > 0, "psi != 0")
    cone = lambda l_, p_, q_: h.cone_build(l_, p_, q_, mirror=mirror, register=False)[0]
    r, dr = h.vec("r", 3), h.vec("dr", 3)
    if rl is not None:
        r = np.eye(3)[rl]     # the clause is linear in r: the three unit vectors (and r = 0, direction dr) span it
    if k is not None:
        dr = np.eye(3)[k] if k < 3 else np.zeros(3)
    dpsi = h.D(cone, x, dx)
    hh = np.concatenate([r, psi])
    dh = np.concatenate([dr, dpsi])
    f = lambda r_, l_, p_, q_: R.Exp_SE3(np.concatenate([r_, cone(l_, p_, q_)]))
    if which == "Exp_SE3_h":
        h.eq("Exp_SE3_h", h.D(f, (r,) + x, (dr,) + dx), R.Exp_SE3_h(hh) @ dh)
    else:
        # H = Exp_SE3(h); direction dH = tangent of Exp_SE3 along dh (a tangent vector to SE(3) at H)
        H = R.Exp_SE3(hh)
        dH = h.D(f, (r,) + x, (dr,) + dx)
        lhs = np.einsum("ijk,jk->i", R.Log_SE3_H(H), dH)
        # chain rule: Log_SE3(Exp_SE3(h)) = h  =>  Log_SE3_H(H) : dH = dh
        h.eq("Log_SE3_H (along SE(3) tangents) = dh", lhs, dh)


def quat(h):
    import cardillo.math.rotations as R
    P, dP = h.quat("P"), h.vec("dP", 4)
    for nz in (True, False):
        h.eq(f"T_SO3_quat_P normalize={nz}", h.D(lambda p: R.T_SO3_quat(p, normalize=nz), (P,), (dP,)), R.T_SO3_quat_P(P, normalize=nz) @ dP)
        h.eq(f"T_SO3_inv_quat_P normalize={nz}", h.D(lambda p: R.T_SO3_inv_quat(p, normalize=nz), (P,), (dP,)), R.T_SO3_inv_quat_P(P, normalize=nz) @ dP)
        h.eq(f"Exp_SO3_quat_P normalize={nz}", h.D(lambda p: R.Exp_SO3_quat(p, normalize=nz), (P,), (dP,)), R.Exp_SO3_quat_P(P, normalize=nz) @ dP)


def cases(tier, seed):
    T = 60 if tier == "quick" else 900
    cs = []
    mirrors = (False,) if tier == "quick" else (False, True)
    for m in mirrors:
        tag = "/mirror" if m else ""
        for w in ("Exp_SO3_psi", "T_SO3_psi", "T_SO3_inv_psi", "T_SO3_dot"):
            cs.append(Case(f"so3/{w}{tag}", so3, dict(which=w, mirror=m), timeout=T, hard=T * 30))
        cs.append(Case(f"se3/Exp_SE3_h{tag}", se3, dict(which="Exp_SE3_h", mirror=m), timeout=T, hard=T * 30))
        for k in range(3):
            cs.append(Case(f"se3/Log_SE3_H{tag}/dir{k}", se3, dict(which="Log_SE3_H", mirror=m, k=k), timeout=T, hard=T * 8))
        for k in (range(3, 6) if tier == "thorough" else ()):
            for rl in range(3):
                cs.append(Case(f"se3/Log_SE3_H{tag}/dir{k}/r{rl}", se3, dict(which="Log_SE3_H", mirror=m, k=k, rl=rl), timeout=T, hard=T * 8))
    # (no float cross-check: central differences of the closed forms (1 - cos a) / a^2 at a ~ 1e-6 lose all significant digits)
    cs.append(Case("at_zero", at_zero, {}, timeout=T, crosscheck=False))
    cs.append(Case("Log_SO3_A", log_A, {}, timeout=T))
    cs.append(Case("quat", quat, {}, timeout=T))
    return cs
