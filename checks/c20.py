"""C20 Solver results honour the Solution contract."""
import ast
import os
import numpy as np
from symx.run import Case

PROPERTY = "C20"
META = dict(
    level="proof",
    bounds="(a) time grids in IEEE-754 double (z3 QF_FP, round-to-nearest-even), bit-precise: the grid law of each solver is read from its source by AST "
           "(np.arange(t0, t1 + dt, dt) grids: Moreau, ScipyIVP, ScipyDAE; step loops over np.arange(t0, t1, dt) with accumulated tn + dt: Rattle, "
           "BackwardEuler, DualStormerVerlet), t0 = 0, 1e-3 <= dt <= 1, t0 < t1 <= 10, at most 5 (quick) / 16 (thorough) grid points, one query per grid law and clause, every model replayed on every solver using that law; (b) row counts of all "
           "stored fields on concrete runs of every solver; (c) Solution.__iter__ on symbolic field entries, nt in 1..3, widths 0..2.  Outside: "
           "save/load (dill file I/O), adaptive grids inside scipy's integrators beyond t_eval.",
    assumptions=["numpy.arange law: len = ceil((stop - start) / step) in double, x_i = start + i * ((start + step) - start)",
                 "the source pattern of each grid construction is recognised by AST (a changed pattern is reported as a harness error, not as a pass)"],
    trusted_base=["z3 floating-point theory"],
)

SOLVER_FILES = dict(Moreau="moreau.py", ScipyIVP="scipy_ivp.py", ScipyDAE="scipy_dae.py", Rattle="rattle.py", BackwardEuler="backward_euler.py",
                    DualStormerVerlet="dual_stormer_verlet.py")


def grid_law(solver):
    """'A' if the solver builds its grid with np.arange(t0, t1 + dt, dt); 'B' if it loops over np.arange(t0, t1, dt) and accumulates tn + dt"""
    import cardillo.solver as S
    path = os.path.join(os.path.dirname(S.__file__), SOLVER_FILES[solver])
    tree = ast.parse(open(path).read())
    laws = set()
    for node in ast.walk(tree):
        if isinstance(node, ast.Call) and isinstance(node.func, ast.Attribute) and node.func.attr == "arange" and len(node.args) == 3:
            a = [ast.unparse(x).replace("self.", "") for x in node.args]
            if a[0] == "t0" and a[2] == "dt" and a[1] in ("t1 + dt", "t1+dt"):
                laws.add("A")
            elif a[0] == "t0" and a[2] == "dt" and a[1] == "t1":
                laws.add("B")
            else:
                laws.add("?" + ",".join(a))
    if len(laws) != 1 or next(iter(laws)).startswith("?"):
        raise RuntimeError(f"unrecognised time-grid construction in {path}: {sorted(laws)}")
    return next(iter(laws))


def grid(h, law="A", clause="short", maxpts=8):
    """one bit-precise query per grid law; the model is replayed on every solver whose source uses that law"""
    solvers = [s for s in SOLVER_FILES if grid_law(s) == law]
    if not solvers:
        h.holds(f"no solver uses grid law {law}", True)
        return
    if h.sym:
        import z3
        from symx import core
        F, rm = z3.Float64(), z3.RNE()
        c = lambda x: z3.FPVal(x, F)
        t1, dt = z3.FP("t1", F), z3.FP("dt", F)
        core.CTX.inputs["t1"] = z3.fpToReal(t1)
        core.CTX.inputs["dt"] = z3.fpToReal(dt)
        core.CTX.input_kind["t1"] = core.CTX.input_kind["dt"] = "fp"
        t0 = c(0.0)
        core.CTX.assumes += [dt >= c(1e-3), dt <= c(1.0), t1 > t0, t1 <= c(10.0), z3.Not(z3.fpIsNaN(t1)), z3.Not(z3.fpIsNaN(dt))]
        if law == "A":
            stop = z3.fpAdd(rm, t1, dt)
            n = z3.fpRoundToIntegral(z3.RTP(), z3.fpDiv(rm, z3.fpSub(rm, stop, t0), dt))
            core.CTX.assumes += [n >= c(2.0), n <= c(float(maxpts))]
            delta = z3.fpSub(rm, z3.fpAdd(rm, t0, dt), t0)
            last = z3.fpAdd(rm, t0, z3.fpMul(rm, z3.fpSub(rm, n, c(1.0)), delta))
            prev = z3.fpAdd(rm, t0, z3.fpMul(rm, z3.fpSub(rm, n, c(2.0)), delta))
            if clause == "short":
                h.holds("grid ends at or after the final time: t[-1] >= t1", last >= t1)
            else:
                h.holds("grid ends at the FIRST point at or after the final time: t[-2] < t1", prev < t1)
        else:
            nst = z3.fpRoundToIntegral(z3.RTP(), z3.fpDiv(rm, z3.fpSub(rm, t1, t0), dt))     # number of steps
            core.CTX.assumes += [nst >= c(1.0), nst <= c(float(maxpts - 1))]
            # accumulated times tn + dt, unrolled up to the bound
            acc = [t0]
            for k in range(maxpts - 1):
                acc.append(z3.fpAdd(rm, acc[-1], dt))
            for k in range(1, maxpts):
                is_k = (nst == c(float(k)))
                if clause == "short":
                    h.holds(f"{k} steps: grid ends at or after the final time", z3.Implies(is_k, acc[k] >= t1), idx=k)
                else:
                    h.holds(f"{k} steps: the last but one grid point is before the final time", z3.Implies(is_k, acc[k - 1] < t1), idx=k)
        return
    # ---- float replay on the real solvers
    t1, dt = h.real("t1"), h.real("dt")
    grids = {sv: real_grid(sv, t1, dt) for sv in solvers}
    if any(len(t) > maxpts + 1 for t in grids.values()):
        h.assume(False, "more grid points than the bound")
    if law == "A":
        if clause == "short":
            bad = [sv for sv, t in grids.items() if not t[-1] >= t1]
            h.holds("grid ends at or after the final time: t[-1] >= t1", not bad, info=f"violated by {bad} at t1={t1!r} dt={dt!r}: t={[float(x) for x in grids[solvers[0]]]}")
        else:
            bad = [sv for sv, t in grids.items() if not t[-2] < t1]
            h.holds("grid ends at the FIRST point at or after the final time: t[-2] < t1", not bad, info=f"violated by {bad} at t1={t1!r} dt={dt!r}: t={[float(x) for x in grids[solvers[0]]]}")
    else:
        for kk in range(1, maxpts):
            if clause == "short":
                bad = [sv for sv, t in grids.items() if len(t) - 1 == kk and not t[-1] >= t1]
                h.holds(f"{kk} steps: grid ends at or after the final time", not bad, idx=kk, info=f"violated by {bad} at t1={t1!r} dt={dt!r}")
            else:
                bad = [sv for sv, t in grids.items() if len(t) - 1 == kk and not t[-2] < t1]
                h.holds(f"{kk} steps: the last but one grid point is before the final time", not bad, idx=kk, info=f"violated by {bad} at t1={t1!r} dt={dt!r}")


def _tiny_system():
    from cardillo import System
    from cardillo.discrete import PointMass
    from cardillo.forces import Force
    pm = PointMass(1.0, q0=np.zeros(3), u0=np.array([1.0, 0.0, 0.0]))
    sysm = System()
    sysm.add(pm, Force(np.array([0.0, 0.0, -1.0]), pm))
    sysm.assemble()
    return sysm


def real_grid(solver, t1, dt):
    import io
    import contextlib
    import warnings
    import cardillo.solver as S
    with contextlib.redirect_stdout(io.StringIO()), contextlib.redirect_stderr(io.StringIO()), warnings.catch_warnings():
        warnings.simplefilter("ignore")
        sysm = _tiny_system()
        obj = getattr(S, solver)(sysm, t1, dt)
        if solver == "Moreau":
            return np.asarray(obj.t)
        if solver in ("ScipyIVP", "ScipyDAE"):
            return np.asarray(obj.t_eval)
        return np.asarray(obj.solve().t)


def rows(h, solver="Moreau"):
    """every stored field has one row per time instant and the system's dimension as width"""
    import io
    import contextlib
    import warnings
    import cardillo.solver as S
    with contextlib.redirect_stdout(io.StringIO()), contextlib.redirect_stderr(io.StringIO()), warnings.catch_warnings():
        warnings.simplefilter("ignore")
        sysm = _tiny_system()
        if solver == "Newton":
            from checks.c21 import smooth_system
            sysm = smooth_system()
            sol = S.Newton(sysm, n_load_steps=3, verbose=False).solve()
        else:
            sol = getattr(S, solver)(sysm, 0.05, 0.01).solve()
    nt = len(sol.t)
    h.holds("time grid starts at the initial time", float(sol.t[0]) == float(sysm.t0))
    h.holds("time grid strictly increasing", bool(np.all(np.diff(np.asarray(sol.t, dtype=float)) > 0)))
    widths = dict(q=sysm.nq, u=sysm.nu, u_dot=sysm.nu, q_dot=sysm.nq, la_g=sysm.nla_g, la_gamma=sysm.nla_gamma, la_c=sysm.nla_c, la_N=sysm.nla_N,
                  la_F=sysm.nla_F, P_g=sysm.nla_g, P_gamma=sysm.nla_gamma, P_N=sysm.nla_N, P_F=sysm.nla_F)
    for k, w in widths.items():
        v = getattr(sol, k, None)
        if v is None:
            continue
        v = np.asarray(v)
        h.holds(f"{k}: one row per instant", v.shape[0] == nt, info=f"{v.shape} nt={nt}")
        h.holds(f"{k}: width = system dimension", v.ndim == 2 and v.shape[1] == w, info=f"{v.shape} expected width {w}")
    n = 0
    for rec in sol:
        h.holds(f"iteration record {n} equals row {n}", float(rec.t) == float(sol.t[n]) and bool(np.all(np.asarray(rec.q) == np.asarray(sol.q[n]))))
        n += 1
    h.holds("iterating yields one record per instant", n == nt)


def iterate(h, nt=2, wq=2, wu=1, with_none=True):
    """Solution.__iter__ with symbolic entries: one record per instant, each field equal to the corresponding row"""
    from cardillo.solver import Solution
    t = h.vec("t", nt)
    q = h.mat("q", nt, wq) if wq else np.zeros((nt, 0))
    u = h.mat("u", nt, wu) if wu else np.zeros((nt, 0))
    extra = h.mat("P", nt, 2)
    sol = Solution(system=None, t=t, q=q, u=(None if with_none else u), la_g=u, P_N=extra)
    n = 0
    for rec in sol:
        h.eq(f"record {n}: t", rec.t, t[n])
        if wq:
            h.eq(f"record {n}: q", rec.q, q[n])
        h.holds(f"record {n}: q has the field's width", int(np.asarray(rec.q).shape[0]) == wq)
        if with_none:
            h.holds(f"record {n}: absent field stays None", rec.u is None)
        if wu:
            h.eq(f"record {n}: la_g", rec.la_g, u[n])
        h.eq(f"record {n}: extra field", rec.P_N, extra[n])
        n += 1
    h.holds("one record per instant", n == nt)


def cases(tier, seed):
    T = 45 if tier == "quick" else 1500
    maxpts = 5 if tier == "quick" else 16
    cs = []
    for law in ("A", "B"):
        for clause in ("short", "over"):
            cs.append(Case(f"grid/law{law}/{clause}", grid, dict(law=law, clause=clause, maxpts=maxpts), timeout=T, hard=T * 12,
                           sentinel=False, pin_tries=0, crosscheck=False))
    for solver in ("Moreau", "Rattle", "BackwardEuler", "DualStormerVerlet", "ScipyIVP", "ScipyDAE", "Newton"):
        cs.append(Case(f"rows/{solver}", rows, dict(solver=solver), timeout=30, patch=False, sentinel=False))
    for nt in (1, 2, 3):
        for wq, wu in ((2, 1), (1, 0), (0, 2)):
            for wn in (True, False):
                cs.append(Case(f"iterate/nt{nt}/wq{wq}wu{wu}/{'none' if wn else 'full'}", iterate, dict(nt=nt, wq=wq, wu=wu, with_none=wn), timeout=30, sentinel=False))
    return cs
