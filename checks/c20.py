"""C20 Solver results honour the Solution contract."""
import ast
import os
import numpy as np
from symx.run import Case

PROPERTY = "C20"
META = dict(
    level="proof",
    bounds="(a) time grids in IEEE-754 double (z3 QF_FP, round-to-nearest-even), bit-precise: the grid law of each solver is read from its source by AST "
           "(np.arange(t0, t1 + dt, dt) grids: Moreau, ScipyIVP, ScipyDAE; step loops with accumulated tn + dt whose step count is TRANSLATED from the "
           "loop's iterable (np.arange(a, b, c), range(n) with n built from + - * /, int, round, ceil, floor, len(np.arange)): Rattle, "
           "BackwardEuler, DualStormerVerlet); exact clauses (known finding) and half-step-tolerant clauses (hold on the current tree), t0 = 0, 1e-3 <= dt <= 1, t0 < t1 <= 10, at most 5 (quick) / 16 (thorough) grid points, one query per grid law and clause, every model replayed on every solver using that law; (b) row counts of all "
           "stored fields on concrete complete runs of every solver and on every fault schedule (truncated runs) explored as in C21; (c) Solution.__iter__ on symbolic field entries, nt in 1..3, widths 0..2.  Outside: "
           "save/load (dill file I/O), adaptive grids inside scipy's integrators beyond t_eval.",
    assumptions=["numpy.arange law: len = ceil((stop - start) / step) in double, x_i = start + i * ((start + step) - start)",
                 "a grid construction outside the translator's expression language is not encoded: the real solver is then run on class representatives chosen by the solver and a reproduced gross violation is reported, anything else is a harness error, never a pass"],
    trusted_base=["z3 floating-point theory"],
)

SOLVER_FILES = dict(Moreau="moreau.py", ScipyIVP="scipy_ivp.py", ScipyDAE="scipy_dae.py", Rattle="rattle.py", BackwardEuler="backward_euler.py",
                    DualStormerVerlet="dual_stormer_verlet.py")


class Unrecognised(Exception):
    pass


def _solver_source(solver):
    import cardillo.solver as S
    path = os.path.join(os.path.dirname(S.__file__), SOLVER_FILES[solver])
    return path, ast.parse(open(path).read())


def _name(node):
    return ast.unparse(node).replace("self.", "")


def _solve_assignments(tree, solver):
    """name -> value AST for simple assignments in the solver class (constructor and solve), last one wins"""
    env = {}
    for cls in [n for n in ast.walk(tree) if isinstance(n, ast.ClassDef) and n.name == solver]:
        for node in ast.walk(cls):
            if isinstance(node, ast.Assign) and len(node.targets) == 1 and isinstance(node.targets[0], (ast.Name, ast.Attribute)):
                env[_name(node.targets[0])] = node.value
    return env


def grid_law(solver):
    """('A', None): grid = np.arange(t0, t1 + dt, dt) built in the constructor;  ('B', count AST): solve() loops over an iterable whose length is
    the number of steps and accumulates tn + dt.  Read from the solver's source on every run."""
    path, tree = _solver_source(solver)
    env = _solve_assignments(tree, solver)
    # law A: a stored grid self.t / self.t_eval = np.arange(t0, t1 + dt, dt)
    for key in ("t", "t_eval"):
        v = env.get(key)
        if isinstance(v, ast.Call) and _name(v.func) in ("np.arange", "arange") and len(v.args) == 3:
            a = [_name(x) for x in v.args]
            if a[0] == "t0" and a[2] == "dt" and a[1] in ("t1 + dt", "t1+dt"):
                return ("A", None)
            raise Unrecognised(f"{path}: stored grid np.arange({', '.join(a)})")
    # law B: the step loop of solve()
    for cls in [n for n in ast.walk(tree) if isinstance(n, ast.ClassDef) and n.name == solver]:
        for fn in [n for n in cls.body if isinstance(n, ast.FunctionDef) and n.name == "solve"]:
            loops = [n for n in ast.walk(fn) if isinstance(n, ast.For) and _name(n.target) == "_"]
            if len(loops) == 1:
                return ("B", _resolve_iterable(loops[0].iter, env, path))
    raise Unrecognised(f"{path}: no time grid / step loop found")


def _resolve_iterable(node, env, path, depth=0):
    if depth > 6:
        raise Unrecognised(f"{path}: iterable too deep")
    if isinstance(node, (ast.Name, ast.Attribute)) and _name(node) in env:
        return _resolve_iterable(env[_name(node)], env, path, depth + 1)
    if isinstance(node, ast.Call) and _name(node.func) == "tqdm" and node.args:
        return _resolve_iterable(node.args[0], env, path, depth + 1)
    if isinstance(node, ast.Call) and _name(node.func) in ("np.arange", "arange") and len(node.args) == 3:
        return ("arange", node.args, env)
    if isinstance(node, ast.Call) and _name(node.func) == "range" and len(node.args) == 1:
        return ("range", node.args[0], env)
    raise Unrecognised(f"{path}: step loop over {ast.unparse(node)}")


def law_key(law):
    """hashable description of a grid law (solvers with the same key share one solver query)"""
    kind, it = law
    if kind == "A":
        return "A"
    if it[0] == "arange":
        return "B:arange(" + ", ".join(_name(x) for x in it[1]) + ")"
    return "B:range(" + _expand(it[1], it[2]) + ")"


def _expand(node, env, depth=0):
    if isinstance(node, (ast.Name, ast.Attribute)) and _name(node) in env and _name(node) not in ("t0", "t1", "dt") and depth < 6:
        return _expand(env[_name(node)], env, depth + 1)
    return _name(node)


def _fp(node, env, sym, depth=0):
    """translate a float / count expression of the solver source into z3 floating point (double, RNE)"""
    import z3
    F, rm = z3.Float64(), z3.RNE()
    if depth > 12:
        raise Unrecognised("expression too deep")
    if isinstance(node, ast.Constant) and isinstance(node.value, (int, float)):
        return z3.FPVal(float(node.value), F)
    if isinstance(node, (ast.Name, ast.Attribute)):
        nm = _name(node)
        if nm in sym:
            return sym[nm]
        if nm in env:
            return _fp(env[nm], env, sym, depth + 1)
        raise Unrecognised(f"unknown name {nm}")
    if isinstance(node, ast.BinOp) and isinstance(node.op, (ast.Add, ast.Sub, ast.Mult, ast.Div)):
        a, b = _fp(node.left, env, sym, depth + 1), _fp(node.right, env, sym, depth + 1)
        return {ast.Add: z3.fpAdd, ast.Sub: z3.fpSub, ast.Mult: z3.fpMul, ast.Div: z3.fpDiv}[type(node.op)](rm, a, b)
    if isinstance(node, ast.UnaryOp) and isinstance(node.op, ast.USub):
        return z3.fpNeg(_fp(node.operand, env, sym, depth + 1))
    if isinstance(node, ast.Call):
        f = _name(node.func)
        if f in ("int",) and len(node.args) == 1:
            return z3.fpRoundToIntegral(z3.RTZ(), _fp(node.args[0], env, sym, depth + 1))
        if f in ("np.round", "round", "np.rint", "np.around") and len(node.args) == 1:
            return z3.fpRoundToIntegral(z3.RNE(), _fp(node.args[0], env, sym, depth + 1))
        if f in ("np.ceil", "math.ceil", "ceil") and len(node.args) == 1:
            return z3.fpRoundToIntegral(z3.RTP(), _fp(node.args[0], env, sym, depth + 1))
        if f in ("np.floor", "math.floor", "floor") and len(node.args) == 1:
            return z3.fpRoundToIntegral(z3.RTN(), _fp(node.args[0], env, sym, depth + 1))
        if f == "len" and len(node.args) == 1 and isinstance(node.args[0], ast.Call) and _name(node.args[0].func) in ("np.arange", "arange"):
            a, b, c = [_fp(x, env, sym, depth + 1) for x in node.args[0].args]
            return z3.fpRoundToIntegral(z3.RTP(), z3.fpDiv(rm, z3.fpSub(rm, b, a), c))
        if f in ("float", "np.float64") and len(node.args) == 1:
            return _fp(node.args[0], env, sym, depth + 1)
    raise Unrecognised(f"expression {ast.unparse(node)}")


def step_count_fp(law, sym):
    """number of steps of a law-B solver as a z3 double"""
    import z3
    rm = z3.RNE()
    kind, it = law
    if it[0] == "arange":
        a, b, c = [_fp(x, it[2], sym) for x in it[1]]
        return z3.fpRoundToIntegral(z3.RTP(), z3.fpDiv(rm, z3.fpSub(rm, b, a), c))       # numpy: len = ceil((stop - start) / step)
    return _fp(it[1], it[2], sym)


def solvers_by_law():
    groups, errors = {}, {}
    for sv in SOLVER_FILES:
        try:
            law = grid_law(sv)
            groups.setdefault(law_key(law), (law, []))[1].append(sv)
        except Unrecognised as e:
            errors[sv] = str(e)
    return groups, errors


def grid(h, key="A", clause="short", maxpts=8):
    """one bit-precise query per grid law; the model is replayed on every solver whose source uses that law"""
    groups, errors = solvers_by_law()
    if key not in groups:
        h.holds(f"no solver uses grid law {key}", True)
        return
    law, solvers = groups[key]
    exact = {"short": "grid ends at or after the final time", "over": "the last but one grid point is before the final time"}[clause]
    tolerant = {"short": "grid reaches the final time up to half a step: t[-1] > t1 - dt/2",
                "over": "grid does not run past the final time by more than half a step: t[-2] < t1 + dt/2"}[clause]
    if h.sym:
        import z3
        from symx import core
        F, rm = z3.Float64(), z3.RNE()
        c = lambda x: z3.FPVal(x, F)
        t1, dt = z3.FP("t1", F), z3.FP("dt", F)
        core.CTX.inputs["t1"] = z3.fpToReal(t1)
        core.CTX.inputs["dt"] = z3.fpToReal(dt)
        core.CTX.input_kind["t1"] = core.CTX.input_kind["dt"] = "fp"
        t0 = c(0.0)
        core.CTX.assumes += [dt >= c(1e-3), dt <= c(1.0), t1 > t0, t1 <= c(10.0), z3.Not(z3.fpIsNaN(t1)), z3.Not(z3.fpIsNaN(dt))]
        half = z3.fpMul(rm, c(0.5), dt)
        if law[0] == "A":
            stop = z3.fpAdd(rm, t1, dt)
            n = z3.fpRoundToIntegral(z3.RTP(), z3.fpDiv(rm, z3.fpSub(rm, stop, t0), dt))
            core.CTX.assumes += [n >= c(2.0), n <= c(float(maxpts))]
            delta = z3.fpSub(rm, z3.fpAdd(rm, t0, dt), t0)
            last = z3.fpAdd(rm, t0, z3.fpMul(rm, z3.fpSub(rm, n, c(1.0)), delta))
            prev = z3.fpAdd(rm, t0, z3.fpMul(rm, z3.fpSub(rm, n, c(2.0)), delta))
            if clause == "short":
                h.holds("grid ends at or after the final time: t[-1] >= t1", last >= t1)
                h.holds(tolerant, last > z3.fpSub(rm, t1, half))
            else:
                h.holds("grid ends at the FIRST point at or after the final time: t[-2] < t1", prev < t1)
                h.holds(tolerant, prev < z3.fpAdd(rm, t1, half))
        else:
            nst = step_count_fp(law, dict(t0=t0, t1=t1, dt=dt))     # number of steps, from the solver's own expression
            core.CTX.assumes += [nst >= c(0.0), nst <= c(float(maxpts - 1))]
            # accumulated times tn + dt, unrolled up to the bound
            acc = [t0]
            for k in range(maxpts - 1):
                acc.append(z3.fpAdd(rm, acc[-1], dt))
            for k in range(0, maxpts):
                is_k = (nst == c(float(k)))
                if clause == "short":
                    if k >= 1:
                        h.holds(f"{k} steps: grid ends at or after the final time", z3.Implies(is_k, acc[k] >= t1), idx=k)
                    h.holds(f"{k} steps: {tolerant}", z3.Implies(is_k, acc[k] > z3.fpSub(rm, t1, half)), idx=k)
                elif k >= 1:
                    h.holds(f"{k} steps: the last but one grid point is before the final time", z3.Implies(is_k, acc[k - 1] < t1), idx=k)
                    h.holds(f"{k} steps: {tolerant}", z3.Implies(is_k, acc[k - 1] < z3.fpAdd(rm, t1, half)), idx=k)
        return
    # ---- float replay on the real solvers
    t1, dt = h.real("t1"), h.real("dt")
    grids = {sv: real_grid(sv, t1, dt) for sv in solvers}
    if any(len(t) > maxpts + 1 for t in grids.values()):
        h.assume(False, "more grid points than the bound")
    info = lambda bad: f"violated by {bad} at t1={t1!r} dt={dt!r}: t={[float(x) for x in grids[solvers[0]]]}"
    if law[0] == "A":
        if clause == "short":
            bad = [sv for sv, t in grids.items() if not t[-1] >= t1]
            h.holds("grid ends at or after the final time: t[-1] >= t1", not bad, info=info(bad))
            bad = [sv for sv, t in grids.items() if not t[-1] > t1 - 0.5 * dt]
            h.holds(tolerant, not bad, info=info(bad))
        else:
            bad = [sv for sv, t in grids.items() if not t[-2] < t1]
            h.holds("grid ends at the FIRST point at or after the final time: t[-2] < t1", not bad, info=info(bad))
            bad = [sv for sv, t in grids.items() if not t[-2] < t1 + 0.5 * dt]
            h.holds(tolerant, not bad, info=info(bad))
    else:
        for kk in range(0, maxpts):
            if clause == "short":
                if kk >= 1:
                    bad = [sv for sv, t in grids.items() if len(t) - 1 == kk and not t[-1] >= t1]
                    h.holds(f"{kk} steps: grid ends at or after the final time", not bad, idx=kk, info=info(bad))
                bad = [sv for sv, t in grids.items() if len(t) - 1 == kk and not t[-1] > t1 - 0.5 * dt]
                h.holds(f"{kk} steps: {tolerant}", not bad, idx=kk, info=info(bad))
            elif kk >= 1:
                bad = [sv for sv, t in grids.items() if len(t) - 1 == kk and not t[-2] < t1]
                h.holds(f"{kk} steps: the last but one grid point is before the final time", not bad, idx=kk, info=info(bad))
                bad = [sv for sv, t in grids.items() if len(t) - 1 == kk and not t[-2] < t1 + 0.5 * dt]
                h.holds(f"{kk} steps: {tolerant}", not bad, idx=kk, info=info(bad))


def grid_fallback(h, solver="Rattle", cls="low", k=2, why=""):
    """fallback for a grid construction the translator does not cover: the real solver is RUN on inputs the solver picks from a class of the
    specification ((t1 - t0)/dt = k + f with f in (0.1, 0.4) / (0.6, 0.9), or an exactly representable multiple) and only the half-step-tolerant
    clauses are judged.  Symbolically the clauses are left open (stated as false under the class assumptions): a model that does not reproduce on
    the real code ends as a harness error ("cannot be encoded, no violation found on the class representatives"), never as a pass."""
    t1, dt = h.real("t1"), h.real("dt")
    if cls == "exact":
        h.assume_eq(dt, 0.125, "dt exactly representable")
        h.assume_eq(t1, 0.125 * k, "t1 an exact multiple")
    else:
        lo, hi = (0.1, 0.4) if cls == "low" else (0.6, 0.9)
        h.assume(dt >= 0.01, "dt >= 0.01")
        h.assume(dt <= 1.0, "dt <= 1")
        h.assume(t1 >= (k + lo) * dt, "class lower bound")
        h.assume(t1 <= (k + hi) * dt, "class upper bound")
    names = ("grid reaches the final time up to half a step: t[-1] > t1 - dt/2", "grid does not run past the final time by more than half a step: t[-2] < t1 + dt/2")
    if h.sym:
        h.note(f"unrecognised grid construction ({why}): clauses left open, decided by running the real solver on class representatives")
        for nm in names:
            h.holds(nm, False)
        return
    t = real_grid(solver, t1, dt)
    h.holds(names[0], bool(t[-1] > t1 - 0.5 * dt), info=f"{solver} t1={t1!r} dt={dt!r} t={[float(x) for x in t]}")
    h.holds(names[1], bool(len(t) < 2 or t[-2] < t1 + 0.5 * dt), info=f"{solver} t1={t1!r} dt={dt!r} t={[float(x) for x in t]}")


def _tiny_system():
    from cardillo import System
    from cardillo.discrete import PointMass
    from cardillo.forces import Force
    pm = PointMass(1.0, q0=np.zeros(3), u0=np.array([1.0, 0.0, 0.0]))
    sysm = System()
    sysm.add(pm, Force(np.array([0.0, 0.0, -1.0]), pm))
    sysm.assemble()
    return sysm


def _static_contact_system():
    """point mass held by three compliance-form springs, pressed onto a frictionless plane by a ramped load (nla_c = 3, nla_N = 1)"""
    from cardillo import System
    from cardillo.discrete import PointMass, Frame
    from cardillo.forces import Force
    from cardillo.contacts import Sphere2Plane
    from cardillo.interactions import TwoPointInteraction
    from cardillo.force_laws import Spring
    pm = PointMass(1.0, q0=np.array([0.0, 0.0, 0.25]), name="pm")
    sysm = System()
    els = []
    for k, r in enumerate(([1.0, 0.0, 0.25], [-0.5, 1.0, 0.25], [-0.5, -1.0, 0.5])):
        fr = Frame(r_OP=np.array(r), name=f"anchor{k}")
        els += [fr, Spring(TwoPointInteraction(fr, pm, name=f"tp{k}"), 10.0, compliance_form=True, name=f"spring{k}")]
    sysm.add(pm, Frame(name="plane"), *els, Force(lambda t: t * np.array([0.1, 0.0, -1.0]), pm, name="load"))
    sysm.add(Sphere2Plane(sysm.contributions_map["plane"], pm, mu=0.0, r=0.25, name="contact"))
    sysm.assemble()
    return sysm


def real_grid(solver, t1, dt):
    import io
    import contextlib
    import warnings
    import cardillo.solver as S
    with contextlib.redirect_stdout(io.StringIO()), contextlib.redirect_stderr(io.StringIO()), warnings.catch_warnings():
        warnings.simplefilter("ignore")
        sysm = _tiny_system()
        obj = getattr(S, solver)(sysm, t1, dt)
        if solver == "Moreau":
            return np.asarray(obj.t)
        if solver in ("ScipyIVP", "ScipyDAE"):
            return np.asarray(obj.t_eval)
        return np.asarray(obj.solve().t)


def rows(h, solver="Moreau"):
    """every stored field has one row per time instant and the system's dimension as width"""
    import io
    import contextlib
    import warnings
    import cardillo.solver as S
    with contextlib.redirect_stdout(io.StringIO()), contextlib.redirect_stderr(io.StringIO()), warnings.catch_warnings():
        warnings.simplefilter("ignore")
        sysm = _tiny_system()
        if solver == "Newton":
            from checks.c21 import smooth_system
            sysm = smooth_system()
            sol = S.Newton(sysm, n_load_steps=3, verbose=False).solve()
        elif solver == "Newton/contact":
            # unilateral contact + compliance spring + bilateral constraint: every multiplier field has its own width
            sysm = _static_contact_system()
            sol = S.Newton(sysm, n_load_steps=2, verbose=False, options=S.SolverOptions(newton_max_iter=50)).solve()
        elif solver == "ScipyDAE/constraint":
            from checks.c17 import build
            from symx.harness import FloatH
            sysm, _, _ = build(FloatH({}), "distance", 0)
            sol = S.ScipyDAE(sysm, 0.05, 0.01).solve()
        else:
            sol = getattr(S, solver)(sysm, 0.05, 0.01).solve()
    nt = len(sol.t)
    h.holds("time grid starts at the initial time", float(sol.t[0]) == float(sysm.t0))
    h.holds("time grid strictly increasing", bool(np.all(np.diff(np.asarray(sol.t, dtype=float)) > 0)))
    widths = dict(q=sysm.nq, u=sysm.nu, u_dot=sysm.nu, q_dot=sysm.nq, la_g=sysm.nla_g, la_gamma=sysm.nla_gamma, la_c=sysm.nla_c, la_N=sysm.nla_N,
                  la_F=sysm.nla_F, mu_g=sysm.nla_g, P_g=sysm.nla_g, P_gamma=sysm.nla_gamma, P_N=sysm.nla_N, P_F=sysm.nla_F)
    for k, w in widths.items():
        v = getattr(sol, k, None)
        if v is None:
            continue
        v = np.asarray(v)
        h.holds(f"{k}: one row per instant", v.shape[0] == nt, info=f"{v.shape} nt={nt}")
        h.holds(f"{k}: width = system dimension", v.ndim == 2 and v.shape[1] == w, info=f"{v.shape} expected width {w}")
    n = 0
    for rec in sol:
        h.holds(f"iteration record {n} equals row {n}", float(rec.t) == float(sol.t[n]) and bool(np.all(np.asarray(rec.q) == np.asarray(sol.q[n]))))
        n += 1
    h.holds("iterating yields one record per instant", n == nt)


def rows_faulty(h, solver="BackwardEuler", system="contact", cont=False):
    """row counts on every fault schedule of the real solve() (fault-injected convergence decisions, see C21): a truncated run still has one
    row per stored instant in every field"""
    from checks import c21
    c21.schedule(h, solver=solver, system=system, cont=cont, only_rows=True)


def iterate(h, nt=2, wq=2, wu=1, with_none=True):
    """Solution.__iter__ with symbolic entries: one record per instant, each field equal to the corresponding row"""
    from cardillo.solver import Solution
    t = h.vec("t", nt)
    q = h.mat("q", nt, wq) if wq else np.zeros((nt, 0))
    u = h.mat("u", nt, wu) if wu else np.zeros((nt, 0))
    extra = h.mat("P", nt, 2)
    sol = Solution(system=None, t=t, q=q, u=(None if with_none else u), la_g=u, P_N=extra)
    n = 0
    for rec in sol:
        h.eq(f"record {n}: t", rec.t, t[n])
        if wq:
            h.eq(f"record {n}: q", rec.q, q[n])
        h.holds(f"record {n}: q has the field's width", int(np.asarray(rec.q).shape[0]) == wq)
        if with_none:
            h.holds(f"record {n}: absent field stays None", rec.u is None)
        if wu:
            h.eq(f"record {n}: la_g", rec.la_g, u[n])
        h.eq(f"record {n}: extra field", rec.P_N, extra[n])
        n += 1
    h.holds("one record per instant", n == nt)


def cases(tier, seed):
    T = 120 if tier == "quick" else 1500
    maxpts = 5 if tier == "quick" else 16
    cs = []
    groups, errors = solvers_by_law()
    other = 0
    for key in sorted(groups):
        if key == "A" or key == "B:arange(t0, t1, dt)":
            label = key[0]
        else:
            other += 1
            label = f"B{other}"
        for clause in ("short", "over"):
            cs.append(Case(f"grid/law{label}/{clause}", grid, dict(key=key, clause=clause, maxpts=maxpts), timeout=T, hard=T * 8,
                           sentinel=False, pin_tries=0, crosscheck=False))
    for sv, why in sorted(errors.items()):
        for cls in ("low", "high", "exact"):
            for k in (1, 2, 3):
                cs.append(Case(f"grid/unrecognised/{sv}/{cls}/k{k}", grid_fallback, dict(solver=sv, cls=cls, k=k, why=why[-120:]), timeout=30,
                               sentinel=False, crosscheck=False))
    for solver in ("BackwardEuler", "Rattle", "Moreau", "DualStormerVerlet", "Newton"):
        for system in (("smooth",) if solver == "Newton" else ("contact", "smooth")):
            cs.append(Case(f"rows_faulty/{solver}/{system}", rows_faulty, dict(solver=solver, system=system, cont=False), timeout=30,
                           max_paths=(128 if tier == "quick" else 1024), max_depth=64, patch=False, sentinel=False, hard=1200))
    for solver in ("Moreau", "Rattle", "BackwardEuler", "DualStormerVerlet", "ScipyIVP", "ScipyDAE", "Newton", "Newton/contact", "ScipyDAE/constraint"):
        cs.append(Case(f"rows/{solver}", rows, dict(solver=solver), timeout=30, patch=False, sentinel=False))
    for nt in (1, 2, 3):
        for wq, wu in ((2, 1), (1, 0), (0, 2)):
            for wn in (True, False):
                cs.append(Case(f"iterate/nt{nt}/wq{wq}wu{wu}/{'none' if wn else 'full'}", iterate, dict(nt=nt, wq=wq, wu=wu, with_none=wn), timeout=30, sentinel=False))
    return cs
