"""C16 Consistent initial conditions solve the initial equations of motion."""
import numpy as np
from symx.run import Case
from checks import lib

PROPERTY = "C16"
META = dict(
    level="proof",
    bounds="the real System.assemble / consistent_initial_conditions on grid systems with CONCRETE consistent initial configurations and SYMBOLIC "
           "parameters and velocities where admissible: (a) rigid body on a revolute joint to a frame with an external force (symbolic), a rotational "
           "spring in force form and one in compliance form (symbolic stiffness), a motor (symbolic torque) and a PD controller: the linear solve is the "
           "LU stub and the rows of the recorded system are proved identical to M u_dot - h - W_c la_c - W_tau la_tau - W_g la_g and to g_ddot; (b) guards: "
           "a point mass on a spherical joint with a SYMBOLIC initial position / velocity, and a point mass over a plane with a symbolic initial height "
           "and approach velocity: every path that returns has a consistent state, every inconsistent state raises; (c) resting contact with symbolic "
           "gravity and friction coefficient, fixed-point loop bounded to 2 iterations: returned la_N >= 0 and |la_F| <= mu la_N; (d) the acceleration-level "
           "contact data the initial fixed point is solved with (zeta_N, zeta_F, W_N, W_F at system level) are the time derivatives of g_N_dot / gamma_F "
           "for a sphere (rigid body / point mass) on a MOVING plane with symbolic state.",
    assumptions=["LU contract for the linear solve", "acceleration-level complementarity holds only at an exact fixed point of the contact loop (not claimed beyond the projections' ranges)"],
    trusted_base=["LU contract"],
)


def smooth(h, with_actuators=True, seed=0, spinning=False):
    from cardillo.forces import Force
    from cardillo.force_laws import Spring
    from cardillo.actuators import Motor, PDcontroller
    from cardillo.solver import SolverOptions
    k1, k2 = h.pos("k1"), h.pos("k2")
    tau = h.real("tau")
    F = h.vec("F", 3)
    kp, kd = h.real("kp"), h.real("kd")

    def extra(rp):
        els = [Force(F, rp.b, B_r_CP=np.array([0.25, 0.0, 0.125])), Spring(rp.joint, k1, l_ref=0.5, compliance_form=False, name="s_force"),
               Spring(rp.joint, k2, l_ref=-0.25, compliance_form=True, name="s_compl")]
        if with_actuators:
            els += [Motor(rp.joint, tau), PDcontroller(rp.joint, kp, kd, np.array([0.25, 0.5]))]
            els[-2].name, els[-1].name = "motor", "pd"
        rp.els = els
        return els
    # spinning: the body starts with a symbolic admissible joint rate, so that velocity-dependent actuator forces (kd) are nonzero at t0
    rp = lib.RevolutePair(h, seed=seed, axis=2, first="F", extra=extra, w0=h.real("w0") if spinning else None)
    sysm = rp.sysm
    raised = None
    with h.capture():
        try:
            sysm.assemble(options=SolverOptions(fixed_point_max_iter=2))
        except AssertionError as e:
            raised = str(e)
    if raised is not None:
        from symx.harness import Skip
        raise Skip("rejected: " + raised)
    t0, q0, u0 = sysm.t0, sysm.q0, sysm.u0
    ud, la_g, la_c = sysm.u_dot0, sysm.la_g0, sysm.la_c0
    M = np.asarray(sysm.M(t0, q0).toarray())
    # actuator forces taken from the actuators themselves (not through the system's own scatter, which is C14's subject)
    f_tau = np.zeros(sysm.nu, dtype=object if h.sym else float)
    for el in (rp.els[-2:] if with_actuators else []):
        f_el = np.asarray(el.W_tau(t0, q0[el.qDOF])).reshape(len(el.uDOF), -1) @ np.atleast_1d(el.la_tau(t0, q0[el.qDOF], u0[el.uDOF]))
        for i, ui in enumerate(el.uDOF):
            f_tau[ui] = f_tau[ui] + f_el[i]
    rhs = sysm.h(t0, q0, u0) + np.asarray(sysm.W_c(t0, q0).toarray()) @ la_c + np.asarray(sysm.W_g(t0, q0).toarray()) @ la_g + f_tau
    if h.sym:
        rec = h.lu_log()[0]
        res = rec["A"] @ rec["x"] - rec["b"]
        nu = sysm.nu
        h.eq("returned accelerations / multipliers are the linear solve's solution", np.concatenate([ud, la_g]), rec["x"][:nu + sysm.nla_g])
        h.eq("momentum rows of the initial linear system = M u_dot - h - W_c la_c - W_tau la_tau - W_g la_g", res[:nu], M @ rec["x"][:nu] - (
            sysm.h(t0, q0, u0) + np.asarray(sysm.W_c(t0, q0).toarray()) @ la_c
            + f_tau
            + np.asarray(sysm.W_g(t0, q0).toarray()) @ rec["x"][nu:nu + sysm.nla_g]))
        h.eq("constraint rows of the initial linear system = g_ddot(t0, q0, u0, u_dot)", res[nu:nu + sysm.nla_g],
             np.atleast_1d(sysm.g_ddot(t0, q0, u0, rec["x"][:nu])))
    else:
        h.eq("momentum rows of the initial linear system = M u_dot - h - W_c la_c - W_tau la_tau - W_g la_g", M @ ud - rhs, np.zeros(sysm.nu), tol=1e-8)
        h.eq("constraint rows of the initial linear system = g_ddot(t0, q0, u0, u_dot)", np.atleast_1d(sysm.g_ddot(t0, q0, u0, ud)), np.zeros(sysm.nla_g), tol=1e-8)
    h.eq("la_c0 is the compliance force of the initial state", sysm.c(t0, q0, u0, la_c), np.zeros(sysm.nla_c))


def guard_bilateral(h, level="position", seed=0):
    """a point mass on a spherical joint: initial states violating g or g_dot are rejected"""
    from cardillo import System
    from cardillo.discrete import PointMass, Frame
    from cardillo.constraints import Spherical
    from cardillo.solver import SolverOptions
    q0 = h.vec("q0_", 3) if level == "position" else np.array([0.5, 0.25, 0.0])
    u0 = h.vec("u0_", 3) if level == "velocity" else np.zeros(3)
    pm = PointMass(1.0, q0=q0, u0=u0)
    fr = Frame(r_OP=np.array([0.5, 0.25, 0.0]))
    j = Spherical(fr, pm, r_OJ0=np.array([0.5, 0.25, 0.0]))
    sysm = System()
    sysm.add(pm, fr, j)
    raised = False
    with h.capture():
        try:
            sysm.assemble(options=SolverOptions(fixed_point_max_iter=2))
        except AssertionError:
            raised = True
    viol = (q0 - np.array([0.5, 0.25, 0.0])) if level == "position" else u0
    big = 1e-6
    for i in range(3):
        if not raised:
            h.le(f"accepted initial state satisfies the {level}-level constraint [{i}] (tolerance)", abs(viol[i]), big)


def guard_contact(h, seed=0):
    from cardillo import System
    from cardillo.discrete import PointMass, Frame
    from cardillo.contacts import Sphere2Plane
    from cardillo.forces import Force
    from cardillo.solver import SolverOptions
    z0, vz = h.real("z0"), h.real("vz")
    pm = PointMass(1.0, q0=h.arr([0.0, 0.0, z0]), u0=h.arr([0.25, 0.0, vz]))
    fr = Frame()
    con = Sphere2Plane(fr, pm, mu=0.3, r=0.25, e_N=0.5)
    sysm = System()
    sysm.add(pm, fr, con, Force(np.array([0.0, 0.0, -9.81]), pm))
    raised = False
    if h.sym:
        from symx import shims
        shims.LU_MODE[0] = "cramer"
    with h.capture():
        try:
            sysm.assemble(options=SolverOptions(fixed_point_max_iter=2))
        except AssertionError:
            raised = True
    gN = z0 - 0.25
    if not raised:
        h.le("accepted initial state does not penetrate (tolerance)", -1e-6, gN)
        if h.sym:
            import z3
            from symx.core import B
            closed = abs(gN) <= 1e-8
            c = closed.t if isinstance(closed, B) else z3.BoolVal(bool(closed))
            appr = (vz >= -1e-6)
            a = appr.t if isinstance(appr, B) else z3.BoolVal(bool(appr))
            h.holds("accepted closed contact does not approach (tolerance)", z3.Implies(c, a))
        else:
            h.holds("accepted closed contact does not approach (tolerance)", (not abs(gN) <= 1e-8) or vz >= -1e-6)
        laN, laF = sysm.la_N0, sysm.la_F0
        h.le("initial normal contact force >= 0", 0.0, laN[0])
        h.le("initial friction force within the Coulomb cone", laF @ laF, (0.3 * laN[0]) * (0.3 * laN[0]) * (1 + 1e-9) + 1e-18)


def two_contacts(h, seed=0):
    """acceleration-level Coulomb condition of a STICKING contact (symbolic tangential load below the friction limit) next to a SLIDING one:
    the sticking mass does not accelerate and its friction force balances the load"""
    from cardillo import System
    from cardillo.discrete import PointMass
    from cardillo.forces import Force
    from cardillo.contacts import Sphere2Plane
    from cardillo.solver import SolverOptions
    m, g, mu = 2.0, 10.0, 0.5
    f = h.real("pull")
    h.assume(f > 0.5, "pull > 0.5")
    h.assume(f < 0.9 * mu * m * g, "pull below the friction limit")
    sysm = System()
    A = PointMass(m, q0=np.array([0.0, 0.0, 0.0]), u0=np.zeros(3), name="A")
    B = PointMass(m, q0=np.array([1.0, 0.5, 0.0]), u0=np.array([1.0, 0.0, 0.0]), name="B")
    cA = Sphere2Plane(sysm.origin, A, mu=mu, r=0, e_N=0, e_F=0, name="cA")
    cB = Sphere2Plane(sysm.origin, B, mu=mu, r=0, e_N=0, e_F=0, name="cB")
    sysm.add(A, B, Force(h.arr([f, 0.0, -m * g]), A, name="fA"), Force(np.array([0.0, 0.0, -m * g]), B, name="fB"), cA, cB)
    if h.sym:
        from symx import shims
        shims.LU_MODE[0] = "cramer"
    raised = None
    with h.capture():
        try:
            sysm.assemble(options=SolverOptions(prox_scaling=1.0))
        except (AssertionError, RuntimeError) as e:
            raised = str(e)
    h.holds("consistent initial conditions are found (two persistent contacts)", raised is None, info=str(raised))
    if raised is not None:
        return
    ud, laN, laF = sysm.u_dot0, sysm.la_N0, sysm.la_F0
    tol = None if h.sym else 1e-6
    h.eq("sticking contact: no acceleration", ud[A.uDOF], np.zeros(3), tol=(1e-6 if h.sym else 1e-6))
    h.eq("sticking contact: friction balances the tangential load", laF[cA.la_FDOF], h.arr([-f, 0.0]), tol=1e-6)
    h.eq("normal forces carry the weights", laN, np.array([m * g, m * g]), tol=1e-6)
    h.eq("sliding contact: friction opposes the slip with magnitude mu la_N", laF[cB.la_FDOF], np.array([-mu * m * g, 0.0]), tol=1e-5)
    h.eq("sliding contact: deceleration mu g", ud[B.uDOF], np.array([-mu * g, 0.0, 0.0]), tol=1e-5)


def contact_gap(h, sub="RB", seed=0):
    """the acceleration-level contact quantities consistent_initial_conditions solves with (zeta_N = System.g_N_ddot(t0, q0, u0, 0),
    zeta_F = System.gamma_F_dot(t0, q0, u0, 0), W_N, W_F) are the time derivatives of the velocity-level gaps, for a MOVING plane"""
    from checks import c06
    sysm, fr, body, con, mu, r, an, B = c06._s2p(h, sub, seed)
    t, q, u, ud = lib.sys_state(h, sysm)
    qd = sysm.q_dot(t, q, u)
    zero = np.zeros(sysm.nu)
    gNd = lambda t_, q_, u_: sysm.g_N_dot(t_, q_, u_)
    gF = lambda t_, q_, u_: sysm.gamma_F(t_, q_, u_)
    WN, WF = np.asarray(sysm.W_N(t, q).toarray()), np.asarray(sysm.W_F(t, q).toarray())
    h.eq("zeta_N + W_N^T u_dot = d/dt g_N_dot along (q_dot, u_dot)", sysm.g_N_ddot(t, q, u, zero) + WN.T @ ud, h.D(gNd, (t, q, u), (1.0, qd, ud)))
    h.eq("zeta_F + W_F^T u_dot = d/dt gamma_F along (q_dot, u_dot)", sysm.gamma_F_dot(t, q, u, zero) + WF.T @ ud, h.D(gF, (t, q, u), (1.0, qd, ud)))
    h.eq("System.g_N_ddot(t, q, u, u_dot) = d/dt g_N_dot", sysm.g_N_ddot(t, q, u, ud), h.D(gNd, (t, q, u), (1.0, qd, ud)))
    h.eq("System.gamma_F_dot(t, q, u, u_dot) = d/dt gamma_F", sysm.gamma_F_dot(t, q, u, ud), h.D(gF, (t, q, u), (1.0, qd, ud)))


def cases(tier, seed):
    T = 120 if tier == "quick" else 600
    return [
        Case("smooth/actuators", smooth, dict(with_actuators=True, seed=seed), timeout=T, hard=T * 10, max_paths=64),
        Case("smooth/actuators/spinning", smooth, dict(with_actuators=True, seed=seed, spinning=True), timeout=T, hard=T * 10, max_paths=64),
        Case("smooth/no_actuators", smooth, dict(with_actuators=False, seed=seed), timeout=T, hard=T * 10, max_paths=64),
        Case("guard/position", guard_bilateral, dict(level="position", seed=seed), timeout=T, max_paths=128, sentinel=False),
        Case("guard/velocity", guard_bilateral, dict(level="velocity", seed=seed), timeout=T, max_paths=128, sentinel=False),
        Case("guard/contact", guard_contact, dict(seed=seed), timeout=T, max_paths=128, sentinel=False),
        Case("contact/stick_next_to_slip", two_contacts, dict(seed=seed), timeout=T, hard=T * 10, max_paths=64, sentinel=False),
        Case("contact/acceleration_gap/RB", contact_gap, dict(sub="RB", seed=seed), timeout=T, hard=T * 10),
        Case("contact/acceleration_gap/PM", contact_gap, dict(sub="PM", seed=seed), timeout=T, hard=T * 10),
    ]
