"""C12 Rod material laws are hyperelastic with exact tangents."""
import numpy as np
from symx.run import Case

PROPERTY = "C12"
META = dict(
    level="proof",
    bounds="all real B_Gamma, B_Gamma0, B_Kappa, B_Kappa0 in R^3 (no unit-length assumption; |B_Gamma| != 0 where the law divides by it), "
           "all positive stiffness vectors Ei, Fi; Simo1986 and Harsch2021.",
    assumptions=["stiffnesses > 0", "|B_Gamma| is a sqrt atom r with r >= 0, r^2 = B_Gamma.B_Gamma; every clause is decided under these axioms only"],
    trusted_base=["Cramer-rule shim for np.linalg.inv of the 3x3 stiffness matrices"],
)


def material(h, law="Simo1986"):
    import cardillo.rods._material_models as mm
    Ei = h.arr([h.pos(f"E{i}") for i in range(3)])
    Fi = h.arr([h.pos(f"F{i}") for i in range(3)])
    mat = getattr(mm, law)(Ei, Fi)
    G, G0, K, K0 = h.vec("G", 3), h.vec("G0", 3), h.vec("K", 3), h.vec("K0", 3)
    dG, dK = h.vec("dG", 3), h.vec("dK", 3)
    if law == "Harsch2021":
        h.assume(G @ G > 0, "|B_Gamma| > 0")
    n = mat.B_n(G, G0, K, K0)
    m = mat.B_m(G, G0, K, K0)
    h.eq("B_n = d potential / d B_Gamma", h.D(lambda g: mat.potential(g, G0, K, K0), (G,), (dG,)), n @ dG)
    h.eq("B_m = d potential / d B_Kappa", h.D(lambda k: mat.potential(G, G0, k, K0), (K,), (dK,)), m @ dK)
    h.eq("B_n_B_Gamma", h.D(lambda g: mat.B_n(g, G0, K, K0), (G,), (dG,)), mat.B_n_B_Gamma(G, G0, K, K0) @ dG)
    h.eq("B_n_B_Kappa", h.D(lambda k: mat.B_n(G, G0, k, K0), (K,), (dK,)), mat.B_n_B_Kappa(G, G0, K, K0) @ dK)
    h.eq("B_m_B_Gamma", h.D(lambda g: mat.B_m(g, G0, K, K0), (G,), (dG,)), mat.B_m_B_Gamma(G, G0, K, K0) @ dG)
    h.eq("B_m_B_Kappa", h.D(lambda k: mat.B_m(G, G0, k, K0), (K,), (dK,)), mat.B_m_B_Kappa(G, G0, K, K0) @ dK)
    h.eq("potential vanishes in the reference strain state", mat.potential(G0, G0, K0, K0), 0.0)
    h.eq("stress-free reference: B_n", mat.B_n(G0, G0, K0, K0), np.zeros(3)) if law == "Simo1986" else None
    h.eq("stress-free reference: B_m", mat.B_m(G0, G0, K0, K0), np.zeros(3))
    Tn = mat.B_n_B_Gamma(G, G0, K, K0)
    h.eq("tangent symmetric (hyperelastic)", Tn, Tn.T)
    if hasattr(mat, "complementary_potential"):
        h.eq("Legendre duality: W*(n,m) + W = n.(G-G0) + m.(K-K0)",
             mat.complementary_potential(n, m) + mat.potential(G, G0, K, K0), n @ (G - G0) + m @ (K - K0))
        h.eq("C_n_inv C_n = I", mat.C_n_inv @ mat.C_n, np.eye(3))
        h.eq("C_m_inv C_m = I", mat.C_m_inv @ mat.C_m, np.eye(3))
        h.eq("strain from complementary energy: C_n_inv n = G - G0", mat.C_n_inv @ n, G - G0)
        h.eq("strain from complementary energy: C_m_inv m = K - K0", mat.C_m_inv @ m, K - K0)


def harsch_ref(h):
    """Harsch2021 is stress free in the reference state for nonzero reference stretch"""
    import cardillo.rods._material_models as mm
    Ei = h.arr([h.pos(f"E{i}") for i in range(3)])
    Fi = h.arr([h.pos(f"F{i}") for i in range(3)])
    mat = mm.Harsch2021(Ei, Fi)
    G0, K0 = h.vec("G0", 3), h.vec("K0", 3)
    h.assume(G0 @ G0 > 0, "|B_Gamma0| > 0")
    h.eq("stress-free reference: B_n", mat.B_n(G0, G0, K0, K0), np.zeros(3))


def cases(tier, seed):
    T = 60 if tier == "quick" else 300
    return [Case("Simo1986", material, dict(law="Simo1986"), timeout=T),
            Case("Harsch2021", material, dict(law="Harsch2021"), timeout=T),
            Case("Harsch2021/reference", harsch_ref, {}, timeout=T)]
