"""C06 Contact gaps and slip velocities are geometric and consistently differentiated."""
import numpy as np
from symx.run import Case
from checks import lib

PROPERTY = "C06"
META = dict(
    level="proof",
    bounds="Sphere2Plane x {RigidBody, PointMass} on a frame of constant (symbolic) orientation translating with a free cubic r(t); "
           "Sphere2Sphere x {PM-PM, PM-RB, RB-PM} (quick) + RB-RB (thorough); radii, friction coefficient, anisotropy symbolic positive; body-fixed "
           "offset of the sphere centre symbolic; reference contact basis an arbitrary orthonormal frame (symbolic quaternion); state (t, q, u, u_dot, "
           "multipliers) and directions symbolic: all reals.  Outside: planes with time-varying orientation (excluded by the property), rod subsystems.",
    assumptions=["quaternions nonzero; radii, mu, anisotropy > 0", "sphere centres distinct (|c2 - c1| is a sqrt atom, denominators nonzero)",
                 "initial poses of the bodies are seeded concrete values (they only fix DOF bookkeeping; the reference contact basis is replaced by a symbolic one)"],
    trusted_base=[],
)


# ----------------------------------------------------------------------------- sphere to plane
def _s2p(h, sub="RB", seed=0):
    from cardillo import System
    from cardillo.contacts import Sphere2Plane
    from cardillo.math import Exp_SO3_quat
    rng = np.random.default_rng(seed + 5)
    mo = lib.Motion(h, "pl", rotating=False, A0=Exp_SO3_quat(h.quat("plP")))
    fr = mo.frame(0.0, name="plane")
    body = lib.make_rb(rng, "body") if sub == "RB" else lib.make_pm(rng, "body")
    mu, r = h.pos("mu"), h.pos("rad")
    an = h.arr([h.pos("an0"), h.pos("an1")])
    B = h.vec("B", 3) if sub == "RB" else np.zeros(3)
    con = Sphere2Plane(fr, body, mu=mu, r=r, B_r_CP=B, e_N=0.5, e_F=0.0, anisotropy=an)
    sysm = System()
    sysm.add(fr, body, con)
    lib.assemble(sysm)
    return sysm, fr, body, con, mu, r, an, B


def s2p_geom(h, sub="RB", seed=0):
    sysm, fr, body, con, mu, r, an, B = _s2p(h, sub, seed)
    t, q, u, ud = lib.sys_state(h, sysm)
    ql, ul = q[con.qDOF], u[con.uDOF]
    gN = con.g_N(t, ql)[0]
    c = body.r_OP(t, q[body.qDOF], B_r_CP=B)
    A = fr.A_IB(t)
    n, t1, t2 = A[:, 2], A[:, 0], A[:, 1]
    a, b = h.real("pa"), h.real("pb")
    x = fr.r_OP(t) + a * t1 + b * t2            # arbitrary point of the plane
    # g_N + r depends on the centre c only through n.(c - r_OQ) (clause 'sign' below); the distance bound is then a
    # statement about the plane's basis for an arbitrary centre w, decided with a fresh vector
    wv = h.vec("w", 3)
    hh = n @ (wv - fr.r_OP(t))
    h.le("every plane point is at least |n.(w - r_OQ)| away from any centre w", hh * hh, (x - wv) @ (x - wv))
    foot = c - (gN + r) * n
    h.eq("foot point lies in the plane", n @ (foot - fr.r_OP(t)), 0.0)
    h.eq("foot point realises the distance", (foot - c) @ (foot - c), (gN + r) * (gN + r))
    h.eq("sign: g_N + r is the height of the centre over the plane along n", gN + r, n @ (c - fr.r_OP(t)))
    # slip velocity = tangential relative velocity of the touching material points (subsystems' own v_P)
    AB = body.A_IB(t, q[body.qDOF]) if hasattr(body, "A_IB") else np.eye(3)
    B_S = B + AB.T @ (-r * n)
    v_S = body.v_P(t, q[body.qDOF], u[body.uDOF], B_r_CP=B_S)
    r_S = c - r * n
    v_Fm = fr.v_P(t, B_r_CP=A.T @ (r_S - fr.r_OP(t)))
    gam = con.gamma_F(t, ql, ul)
    h.eq("gamma_F = anisotropy-scaled tangential relative velocity of the material contact points",
         gam, np.array([an[0] * (t1 @ (v_S - v_Fm)), an[1] * (t2 @ (v_S - v_Fm))], dtype=object if h.sym else float))


def s2p_hier(h, sub="RB", part="normal", seed=0):
    sysm, fr, body, con, mu, r, an, B = _s2p(h, sub, seed)
    t, q, u, ud = lib.sys_state(h, sysm)
    qD, uD = con.qDOF, con.uDOF
    qd = sysm.q_dot(t, q, u)
    dq, du = h.vec("dq", sysm.nq), h.vec("du", sysm.nu)
    one = 1.0
    gN = lambda t_, q_: con.g_N(t_, q_[qD])
    gNd = lambda t_, q_, u_: con.g_N_dot(t_, q_[qD], u_[uD])
    gF = lambda t_, q_, u_: con.gamma_F(t_, q_[qD], u_[uD])
    if part == "normal":
        h.eq("g_N_dot = d/dt g_N", h.D(gN, (t, q), (one, qd)), gNd(t, q, u))
        h.eq("W_N = (d g_N_dot / d u)^T", h.D(lambda u_: gNd(t, q, u_), (u,), (du,)), con.W_N(t, q[qD]).T @ du[uD])
        h.eq("g_N_dot_u = W_N^T", con.g_N_dot_u(t, q[qD]), con.W_N(t, q[qD]).T)
        h.eq("g_N_ddot = d/dt g_N_dot", h.D(gNd, (t, q, u), (one, qd, ud)), con.g_N_ddot(t, q[qD], u[uD], ud[uD]))
        h.eq("g_N_q", h.D(lambda q_: gN(t, q_), (q,), (dq,)), con.g_N_q(t, q[qD]) @ dq[qD])
        h.eq("g_N_dot_q", h.D(lambda q_: gNd(t, q_, u), (q,), (dq,)), con.g_N_dot_q(t, q[qD], u[uD]) @ dq[qD])
        la = h.vec("laN", 1)
        h.eq("Wla_N_q", h.D(lambda q_: con.W_N(t, q_[qD]) @ la, (q,), (dq,)), con.Wla_N_q(t, q[qD], la) @ dq[qD])
    elif part == "friction":
        h.eq("W_F = (d gamma_F / d u)^T", h.D(lambda u_: gF(t, q, u_), (u,), (du,)), con.W_F(t, q[qD]).T @ du[uD])
        h.eq("gamma_F_u = W_F^T", con.gamma_F_u(t, q[qD]), con.W_F(t, q[qD]).T)
        h.eq("gamma_F_dot = d/dt gamma_F", h.D(gF, (t, q, u), (one, qd, ud)), con.gamma_F_dot(t, q[qD], u[uD], ud[uD]))
        h.eq("gamma_F_q", h.D(lambda q_: gF(t, q_, u), (q,), (dq,)), con.gamma_F_q(t, q[qD], u[uD]) @ dq[qD])
        la = h.vec("laF", 2)
        h.eq("Wla_F_q", h.D(lambda q_: con.W_F(t, q_[qD]) @ la, (q,), (dq,)), con.Wla_F_q(t, q[qD], la) @ dq[qD])
    else:
        gFd = lambda t_, q_, u_: con.gamma_F_dot(t_, q_[qD], u_[uD], ud[uD])
        r1 = h.call("gamma_F_dot_q returns", con.gamma_F_dot_q, t, q[qD], u[uD], ud[uD], allowed=(NotImplementedError,))
        if r1 is not None:
            h.eq("gamma_F_dot_q", h.D(lambda q_: gFd(t, q_, u), (q,), (dq,)), r1 @ dq[qD])
        r2 = h.call("gamma_F_dot_u returns", con.gamma_F_dot_u, t, q[qD], u[uD], ud[uD], allowed=(NotImplementedError,))
        if r2 is not None:
            h.eq("gamma_F_dot_u", h.D(lambda u_: gFd(t, q, u_), (u,), (du,)), r2 @ du[uD])


def system_entry_points(h, kind="s2p", sub="RB", seed=0):
    """every contact derivative the System exposes returns or raises NotImplementedError"""
    if kind == "s2p":
        sysm = _s2p(h, sub, seed)[0]
    else:
        sysm = _s2s(h, sub, seed)[0]
    t, q, u, ud = lib.sys_state(h, sysm)
    laN, laF = h.vec("laN", sysm.nla_N), h.vec("laF", sysm.nla_F)
    NI = (NotImplementedError,)
    for name, args in (("g_N_q", (t, q)), ("W_N", (t, q)), ("g_N_dot_u", (t, q)), ("xi_N_q", (t, q, u)), ("Wla_N_q", (t, q, laN)),
                       ("gamma_F_q", (t, q, u)), ("xi_F_q", (t, q, u)), ("gamma_F_u", (t, q)), ("W_F", (t, q)), ("Wla_F_q", (t, q, laF)),
                       ("gamma_F_dot_q", (t, q, u, ud)), ("gamma_F_dot_u", (t, q, u, ud))):
        h.call(f"System.{name} returns or declares itself unimplemented", getattr(sysm, name), *args, allowed=NI)


# ----------------------------------------------------------------------------- sphere to sphere
def _s2s(h, pairing="PM-PM", seed=0):
    from cardillo import System
    from cardillo.contacts import Sphere2Sphere
    from cardillo.math import Exp_SO3_quat
    rng = np.random.default_rng(seed + 11)
    s1, s2 = pairing.split("-")
    if s1 == "F":
        # a sphere carried by a frame with prescribed (translating) motion: the contact geometry depends on t explicitly
        from cardillo.discrete import Frame
        va = h.vec("fa_v", 3)
        ra0 = np.array([0.5, -0.25, 1.0])
        a = Frame(r_OP=lambda t: ra0 + va * t, r_OP_t=lambda t: va + 0 * t, r_OP_tt=lambda t: 0 * va, name="a")
    else:
        a = lib.make_rb(rng, "a") if s1 == "RB" else lib.make_pm(rng, "a")
    b = lib.make_rb(rng, "b") if s2 == "RB" else lib.make_pm(rng, "b")
    r1, r2, mu = h.pos("r1"), h.pos("r2"), h.pos("mu")
    con = Sphere2Sphere(a, b, r1, r2, mu, e_N=0.5, e_F=0.0)
    sysm = System()
    sysm.add(a, b, con)
    lib.assemble(sysm)
    con.reference_contact_basis = Exp_SO3_quat(h.quat("Pref"))
    h.sqrt_hint(1.0)     # |n x t1| = 1 is offered as a hint (solver-checked before it is used)
    return sysm, a, b, con, r1, r2, mu


def _warm_up(h, sysm, con, q, u):
    """evaluations at ANOTHER time with the same coordinates beforehand (as a solver sweeping t does): results at t must not depend on them"""
    tw = h.real("t_before")
    con.g_N(tw, q[con.qDOF])
    con.g_N_dot(tw, q[con.qDOF], u[con.uDOF])
    con.gamma_F(tw, q[con.qDOF], u[con.uDOF])
    con.W_N(tw, q[con.qDOF])


def s2s_geom(h, pairing="PM-PM", seed=0):
    sysm, a, b, con, r1, r2, mu = _s2s(h, pairing, seed)
    t, q, u, ud = lib.sys_state(h, sysm)
    ql, ul = q[con.qDOF], u[con.uDOF]
    if pairing.startswith("F"):
        _warm_up(h, sysm, con, q, u)
    c1, c2 = a.r_OP(t, q[a.qDOF]), b.r_OP(t, q[b.qDOF])
    gN = con.g_N(t, ql)[0]
    d = gN + r1 + r2
    h.eq("(g_N + r1 + r2)^2 = |c2 - c1|^2", d * d, (c2 - c1) @ (c2 - c1))
    h.le("g_N + r1 + r2 >= 0", 0.0, d)
    n = con.n(t, ql)
    t1, t2 = con.t1t2(t, ql)
    h.eq("n points from sphere 1 to sphere 2", n * d, c2 - c1)
    E = np.array([t1, t2, n], dtype=object if h.sym else float)
    h.eq("contact basis (t1, t2, n) orthonormal", E @ E.T, np.eye(3))
    A1 = a.A_IB(t, q[a.qDOF]) if hasattr(a, "A_IB") else np.eye(3)
    A2 = b.A_IB(t, q[b.qDOF]) if hasattr(b, "A_IB") else np.eye(3)
    v1 = a.v_P(t, q[a.qDOF], u[a.uDOF], B_r_CP=A1.T @ (r1 * n))
    v2 = b.v_P(t, q[b.qDOF], u[b.uDOF], B_r_CP=A2.T @ (-r2 * n))
    gam = con.gamma_F(t, ql, ul)
    h.eq("gamma_F = tangential relative velocity of the material contact points", gam,
         np.array([t1 @ (v2 - v1), t2 @ (v2 - v1)], dtype=object if h.sym else float))


def s2s_hier(h, pairing="PM-PM", clause="g_N_dot", k=None, seed=0):
    sysm, a, b, con, r1, r2, mu = _s2s(h, pairing, seed)
    t, q, u, ud = lib.sys_state(h, sysm)
    qD, uD = con.qDOF, con.uDOF
    qd = sysm.q_dot(t, q, u)
    dq = h.vec("dq", sysm.nq) if k is None else np.eye(sysm.nq)[k]
    du = h.vec("du", sysm.nu)
    one = 1.0
    gN = lambda t_, q_: con.g_N(t_, q_[qD])
    gNd = lambda t_, q_, u_: con.g_N_dot(t_, q_[qD], u_[uD])
    gF = lambda t_, q_, u_: con.gamma_F(t_, q_[qD], u_[uD])
    if pairing.startswith("F"):
        _warm_up(h, sysm, con, q, u)
    if clause == "g_N_dot":
        h.eq("g_N_dot = d/dt g_N", h.D(gN, (t, q), (one, qd)), gNd(t, q, u))
        h.eq("W_N = (d g_N_dot / d u)^T", h.D(lambda u_: gNd(t, q, u_), (u,), (du,)), con.W_N(t, q[qD]).T @ du[uD])
        h.eq("g_N_q", h.D(lambda q_: gN(t, q_), (q,), (dq,)), con.g_N_q(t, q[qD]) @ dq[qD])
    elif clause == "g_N_ddot":
        h.eq("g_N_ddot = d/dt g_N_dot", h.D(gNd, (t, q, u), (one, qd, ud)), con.g_N_ddot(t, q[qD], u[uD], ud[uD]))
    elif clause == "Wla_N_q":
        la = h.vec("laN", 1)
        h.eq("Wla_N_q", h.D(lambda q_: con.W_N(t, q_[qD]) @ la, (q,), (dq,)), con.Wla_N_q(t, q[qD], la) @ dq[qD])
    elif clause == "n_q":
        n1, n2 = con.n_q1_q2(t, q[qD])
        h.eq("n_q1_q2", h.D(lambda q_: con.n(t, q_[qD]), (q,), (dq,)), np.hstack([n1, n2]) @ dq[qD])
    elif clause == "t1t2_q":
        t1q1, t1q2, t2q1, t2q2 = con.t1t2_q1_q2(t, q[qD])
        dt = h.D(lambda q_: np.array(con.t1t2(t, q_[qD])), (q,), (dq,))
        h.eq("t1_q1_q2", dt[0], np.hstack([t1q1, t1q2]) @ dq[qD])
        h.eq("t2_q1_q2", dt[1], np.hstack([t2q1, t2q2]) @ dq[qD])
    elif clause == "W_F":
        h.eq("W_F = (d gamma_F / d u)^T", h.D(lambda u_: gF(t, q, u_), (u,), (du,)), con.W_F(t, q[qD]).T @ du[uD])
    elif clause == "gamma_F_dot":
        h.eq("gamma_F_dot = d/dt gamma_F", h.D(gF, (t, q, u), (one, qd, ud)), con.gamma_F_dot(t, q[qD], u[uD], ud[uD]))
    elif clause == "gamma_F_q":
        h.eq("gamma_F_q", h.D(lambda q_: gF(t, q_, u), (q,), (dq,)), sysm.gamma_F_q(t, q, u).toarray()[con.la_FDOF][:, qD] @ dq[qD])
    elif clause == "Wla_F_q":
        la = h.vec("laF", 2)
        h.eq("Wla_F_q", h.D(lambda q_: con.W_F(t, q_[qD]) @ la, (q,), (dq,)), con.Wla_F_q(t, q[qD], la) @ dq[qD])


S2S_CLAUSES = ("g_N_dot", "g_N_ddot", "Wla_N_q", "n_q", "t1t2_q", "W_F", "gamma_F_dot", "gamma_F_q", "Wla_F_q")


def cases(tier, seed):
    T = 150 if tier == "quick" else 900
    cs = []
    for sub in ("RB", "PM"):
        cs.append(Case(f"s2p/{sub}/geometry", s2p_geom, dict(sub=sub, seed=seed), timeout=T))
        for part in ("normal", "friction", "friction_dot"):
            cs.append(Case(f"s2p/{sub}/{part}", s2p_hier, dict(sub=sub, part=part, seed=seed), timeout=T))
        cs.append(Case(f"s2p/{sub}/system", system_entry_points, dict(kind="s2p", sub=sub, seed=seed), timeout=T))
    pairings = ("PM-PM", "PM-RB", "RB-PM", "F-PM") if tier == "quick" else ("PM-PM", "PM-RB", "RB-PM", "F-PM", "F-RB", "RB-RB")
    FAST = ("g_N_dot", "g_N_ddot", "Wla_N_q", "n_q", "W_F", "gamma_F_dot")
    PER_DIR = ("t1t2_q", "gamma_F_q", "Wla_F_q")
    rng = np.random.default_rng(seed)
    for p in pairings:
        nq = sum({"RB": 7, "PM": 3, "F": 0}[s] for s in p.split("-"))
        cs.append(Case(f"s2s/{p}/geometry", s2s_geom, dict(pairing=p, seed=seed), timeout=T))
        for cl in FAST:
            if tier == "quick" and cl == "gamma_F_dot" and p != "PM-PM":
                continue
            cs.append(Case(f"s2s/{p}/{cl}", s2s_hier, dict(pairing=p, clause=cl, seed=seed), timeout=T, hard=T * 6))
        if tier == "quick":
            dirs = sorted(int(x) for x in rng.choice(nq, size=2, replace=False)) if p == "PM-PM" else []
        else:
            dirs = range(nq)
        for cl in PER_DIR:
            for k in dirs:
                cs.append(Case(f"s2s/{p}/{cl}/dir{k}", s2s_hier, dict(pairing=p, clause=cl, k=k, seed=seed),
                               timeout=(40 if tier == "quick" else T), hard=T * 8))
    cs.append(Case("s2s/PM-PM/system", system_entry_points, dict(kind="s2s", sub="PM-PM", seed=seed), timeout=T))
    cs.append(Case("s2s/RB-PM/system", system_entry_points, dict(kind="s2s", sub="RB-PM", seed=seed), timeout=T))
    return cs
