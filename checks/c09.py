"""C09 Scalar force laws default to a stress-free initial configuration."""
import numpy as np
from symx.run import Case
from checks import lib

PROPERTY = "C09"
META = dict(
    level="proof",
    bounds="force laws {Spring, KelvinVoigtElement (both forms), MaxwellElement} with l_ref=None on TwoPointInteraction x {PM-PM, PM-RB, RB-RB, F-RB} with "
           "SYMBOLIC initial poses (non-unit initial quaternions included) and symbolic attachment offsets, and on a Revolute joint (RB-RB, Frame-RB) "
           "with symbolic angle0 and initial joint angle; the real System.assemble runs (DOF bookkeeping, assembler callbacks, normalisation of q0).",
    assumptions=["initial quaternions nonzero; the two interaction points are distinct initially", "k, d, eta > 0",
                 "zero relative velocity for the force clause of damper elements (u0 = 0)"],
    trusted_base=[],
)


def tpi_default(h, pairing="PM-PM", law="Spring", form="force", seed=0):
    from cardillo import System
    from cardillo.discrete import RigidBody, PointMass
    from cardillo.interactions import TwoPointInteraction
    from cardillo.force_laws import Spring, KelvinVoigtElement, MaxwellElement
    rng = np.random.default_rng(seed + 71)
    s1, s2 = pairing.split("-")

    def mk(kind, name):
        if kind == "Fm":
            # frame with prescribed motion: the interaction length depends on t explicitly, the system starts at t0 != 0
            from cardillo.discrete import Frame
            v = h.vec(name + "_v", 3)
            r0 = np.array([0.5, -0.25, 1.0])
            # (at rest at t0 = 0.75, so that dampers see no relative velocity there, but elsewhere at any other time)
            return Frame(r_OP=lambda t: r0 + v * ((t - 0.75) * (t - 0.75)), r_OP_t=lambda t: 2 * v * (t - 0.75), r_OP_tt=lambda t: 2 * v + 0 * t, name=name)
        if kind == "RB":
            return RigidBody(1.5, np.diag([1.0, 2.0, 3.0]), q0=np.concatenate([h.vec(name + "_r", 3), h.quat(name + "_P")]), name=name)
        if kind == "PM":
            return PointMass(1.0, q0=h.vec(name + "_r", 3), name=name)
        return lib.make_frame(h, rng, name, moving=False)[0]
    a, b = mk(s1, "a"), mk(s2, "b")
    B1 = h.vec("B1", 3) if s1 not in ("PM", "Fm") else np.zeros(3)
    B2 = h.vec("B2", 3) if s2 != "PM" else np.zeros(3)
    tpi = TwoPointInteraction(a, b, B_r_CP1=B1, B_r_CP2=B2)
    k = h.pos("k")
    if law == "Spring":
        el = Spring(tpi, k, compliance_form=(form == "compliance"))
    elif law == "KelvinVoigt":
        el = KelvinVoigtElement(tpi, k, h.pos("d"), compliance_form=(form == "compliance"))
    else:
        el = MaxwellElement(tpi, k, h.pos("eta"))
    sysm = System(t0=0.75) if s1 == "Fm" else System()
    sysm.add(a, b, tpi, el)
    ok = h.call("System.assemble succeeds", lib.assemble, sysm, allowed=(AssertionError,))
    if ok is None:
        return
    t0, q0, u0 = sysm.t0, sysm.q0, sysm.u0
    _stress_free(h, sysm, el, law, form, t0, q0, u0)
    # the stored energy at any other configuration is measured from the initial length
    if law != "Maxwell":
        q = h.vec("q", sysm.nq)
        for c in sysm.contributions:
            if isinstance(c, RigidBody):
                h.assume(q[c.qDOF[3:7]] @ q[c.qDOF[3:7]] > 0)
        dl = tpi.l(t0, q[tpi.qDOF]) - tpi.l(t0, q0[tpi.qDOF])
        h.eq("E_pot(t0, q) = k/2 (l(q) - l(q0))^2", el.E_pot(t0, q[el.qDOF]), 0.5 * k * dl * dl)


def _stress_free(h, sysm, el, law, form, t0, q0, u0):
    qE, uE = el.qDOF, el.uDOF
    # "the system assembles": the assembled system's force vector and its Jacobians can be evaluated at the initial state
    hs = h.call("System.h evaluates at the initial state", sysm.h, t0, q0, u0)
    if hs is not None:
        h.eq("System.h(t0, q0, u0) = 0 (no other forces in the system)", hs, np.zeros(sysm.nu))
    h.call("System.h_q evaluates at the initial state", sysm.h_q, t0, q0, u0)
    h.call("System.h_u evaluates at the initial state", sysm.h_u, t0, q0, u0)
    E = el.E_pot(t0, q0[qE])
    h.eq("E_pot(t0, q0) = 0", E, 0.0)
    h.eq("System.E_pot(t0, q0) = 0", sysm.E_pot(t0, q0), 0.0)
    if law == "Maxwell":
        h.eq("force(t0, q0, u0) = 0", el.force(t0, q0[qE], u0[uE]), 0.0)
        h.eq("h(t0, q0, u0) = 0", el.h(t0, q0[qE], u0[uE]), np.zeros(len(uE)))
        return
    h.eq("la_c(t0, q0, u0) = 0", el.la_c(t0, q0[qE], u0[uE]), 0.0)
    if form == "force":
        h.eq("h(t0, q0, u0) = 0", el.h(t0, q0[qE], u0[uE]), np.zeros(len(uE)))
    else:
        h.eq("compliance residual at zero force c(t0, q0, u0, 0) = 0", el.c(t0, q0[qE], u0[uE], 0.0), 0.0)


def revolute_default(h, first="RB", law="Spring", form="force", axis=2, seed=0, rotated=False):
    from cardillo.force_laws import Spring, KelvinVoigtElement, MaxwellElement
    h.option("arctan_hints", False)
    k = h.pos("k")
    ang0 = h.angle("angle0")         # (registered angle: a change that takes cos / sin of angle0 stays encodable)

    def extra(rp):
        if law == "Spring":
            rp.el = Spring(rp.joint, k, compliance_form=(form == "compliance"))
        elif law == "KelvinVoigt":
            rp.el = KelvinVoigtElement(rp.joint, k, h.pos("d"), compliance_form=(form == "compliance"))
        else:
            rp.el = MaxwellElement(rp.joint, k, h.pos("eta"))
        return [rp.el]
    # rotated: the second body starts in another orientation than the first (exact rational unit quaternion)
    Pb0 = None
    if rotated:
        from fractions import Fraction
        Pb0 = h.arr([h.const(Fraction(1, 3)), h.const(Fraction(2, 3)), h.const(Fraction(2, 3)), h.const(0)]) if h.sym else np.array([1.0, 2.0, 2.0, 0.0]) / 3.0
    rp = lib.RevolutePair(h, seed=seed, axis=axis, first=first, extra=extra, angle0=ang0, Pb0=Pb0)
    ok = h.call("System.assemble succeeds", lib.assemble, rp.sysm)
    if ok is None:
        return
    sysm = rp.sysm
    _stress_free(h, sysm, rp.el, law, form, sysm.t0, sysm.q0, sysm.u0)
    h.eq("reference angle is the initial joint angle", rp.el.l_ref, rp.joint.l(sysm.t0, sysm.q0[rp.joint.qDOF]))
    # after System.reset() the initial configuration is still stress-free
    sysm.reset()
    qE = rp.el.qDOF
    h.eq("after reset: E_pot(t0, q0) = 0", rp.el.E_pot(sysm.t0, sysm.q0[qE]), 0.0, tol=1e-9)
    h.eq("after reset: joint angle at the initial configuration = reference angle", rp.joint.l(sysm.t0, sysm.q0[rp.joint.qDOF]), rp.el.l_ref, tol=1e-9)


def tpi_reattach(h, law="Spring", form="force", seed=0):
    """an element without l_ref attached to an ALREADY ASSEMBLED interaction after the system got a new initial state is stress-free there"""
    from cardillo import System
    from cardillo.discrete import RigidBody, PointMass
    from cardillo.interactions import TwoPointInteraction
    from cardillo.force_laws import Spring, KelvinVoigtElement, MaxwellElement
    from cardillo.solver import SolverOptions
    a = PointMass(1.0, q0=np.array([0.0, 0.0, -1.0]), name="a")
    b = RigidBody(1.5, np.diag([1.0, 2.0, 3.0]), q0=np.array([1.0, 0.5, 0.25, 1.0, 0.0, 0.0, 0.0]), name="b")
    tpi = TwoPointInteraction(a, b, B_r_CP2=np.array([0.25, 0.0, 0.125]), name="tpi")
    sysm = System()
    sysm.add(a, b, tpi, Spring(tpi, 3.0, l_ref=0.75, name="main"))
    opts = SolverOptions(compute_consistent_initial_conditions=False)
    lib.assemble(sysm)
    q_new = np.concatenate([h.vec("n_ra", 3), h.vec("n_rb", 3), h.quat("n_P")])
    ok = h.call("set_new_initial_state succeeds", lambda: sysm.set_new_initial_state(q_new, np.zeros(sysm.nu), 0.0, options=opts) or True, allowed=(AssertionError,))
    k = h.pos("k")
    if law == "Spring":
        el = Spring(tpi, k, compliance_form=(form == "compliance"), name="parallel")
    elif law == "KelvinVoigt":
        el = KelvinVoigtElement(tpi, k, h.pos("d"), compliance_form=(form == "compliance"), name="parallel")
    else:
        el = MaxwellElement(tpi, k, h.pos("eta"), name="parallel")
    sysm.add(el)
    ok = h.call("System.assemble succeeds (re-assembly with the new element)", lib.assemble, sysm, allowed=(AssertionError,))
    if ok is None:
        return
    t0, q0, u0 = sysm.t0, sysm.q0, sysm.u0
    qE, uE = el.qDOF, el.uDOF
    h.eq("E_pot(t0, q0) = 0", el.E_pot(t0, q0[qE]), 0.0)
    if law == "Maxwell":
        h.eq("force(t0, q0, u0) = 0", el.force(t0, q0[qE], u0[uE]), 0.0)
    else:
        h.eq("la_c(t0, q0, u0) = 0", el.la_c(t0, q0[qE], u0[uE]), 0.0)
    h.eq("reference length is the length in the new initial configuration", el.l_ref, tpi.l(t0, q0[tpi.qDOF]))


def cases(tier, seed):
    T = 120 if tier == "quick" else 600
    cs = []
    pairings = ("PM-PM", "PM-RB", "RB-PM", "F-RB") if tier == "quick" else ("PM-PM", "PM-RB", "RB-PM", "RB-RB", "F-RB", "RB-F")
    laws = (("Spring", "force"), ("Spring", "compliance"), ("KelvinVoigt", "force"), ("KelvinVoigt", "compliance"), ("Maxwell", "force"))
    for p in pairings:
        for law, form in laws:
            cs.append(Case(f"tpi/{p}/{law}/{form}", tpi_default, dict(pairing=p, law=law, form=form, seed=seed), timeout=T))
    for first in ("RB", "F"):
        for law, form in laws:
            for axis in (((seed + 2) % 3,) if tier == "quick" else (0, 1, 2)):
                cs.append(Case(f"revolute/{first}/{law}/{form}/ax{axis}", revolute_default, dict(first=first, law=law, form=form, axis=axis, seed=seed), timeout=T))
                if first == "RB" and (tier == "thorough" or law in ("Spring", "Maxwell")):
                    cs.append(Case(f"revolute/RB-rotated/{law}/{form}/ax{axis}", revolute_default,
                                   dict(first=first, law=law, form=form, axis=axis, seed=seed, rotated=True), timeout=T))
    for law, form in laws:
        cs.append(Case(f"tpi/Fm-PM(t0=0.75)/{law}/{form}", tpi_default, dict(pairing="Fm-PM", law=law, form=form, seed=seed), timeout=T))
    for law, form in laws:
        cs.append(Case(f"tpi_reattach/{law}/{form}", tpi_reattach, dict(law=law, form=form, seed=seed), timeout=T))
    return cs
