"""Shared builders for the checks (dual-mode: symbolic and float replay)."""
import numpy as np


def spd3(h, name):
    """symmetric positive definite 3x3 as L L^T with positive diagonal"""
    l00, l11, l22 = h.pos(name + "_l00"), h.pos(name + "_l11"), h.pos(name + "_l22")
    l10, l20, l21 = h.real(name + "_l10"), h.real(name + "_l20"), h.real(name + "_l21")
    L = h.arr([[l00, 0.0, 0.0], [l10, l11, 0.0], [l20, l21, l22]])
    return L @ L.T


def rot_x(h, a):
    s, c = np.sin(a), np.cos(a)
    R = h.arr([[1.0, 0.0, 0.0], [0.0, c, -s], [0.0, s, c]])
    dR = h.arr([[0.0, 0.0, 0.0], [0.0, -s, -c], [0.0, c, -s]])
    ddR = h.arr([[0.0, 0.0, 0.0], [0.0, -c, s], [0.0, -s, -c]])
    return R, dR, ddR


def rot_z(h, a):
    s, c = np.sin(a), np.cos(a)
    R = h.arr([[c, -s, 0.0], [s, c, 0.0], [0.0, 0.0, 1.0]])
    dR = h.arr([[-s, -c, 0.0], [c, -s, 0.0], [0.0, 0.0, 0.0]])
    ddR = h.arr([[-c, s, 0.0], [-s, -c, 0.0], [0.0, 0.0, 0.0]])
    return R, dR, ddR


class Motion:
    """prescribed frame motion: r(t) cubic with free coefficients, A(t) = A0 Rx(alpha(t)) Rz(theta(t)),
    alpha/theta quadratic with free coefficients; derivatives supplied in closed form (as a user would)."""

    def __init__(self, h, prefix, rotating=True, translating=True, A0=None, two_axes=True):
        from cardillo.math import Exp_SO3_quat
        self.h = h
        self.c = [h.vec(f"{prefix}_r{k}_", 3) for k in range(4)] if translating else None
        self.r_const = None if translating else h.vec(f"{prefix}_r", 3)
        self.rotating = rotating
        if A0 is None:
            A0 = Exp_SO3_quat(h.quat(f"{prefix}_P"))
        self.A0 = A0
        self.two_axes = two_axes
        if rotating:
            self.al = [h.angle(f"{prefix}_al0"), h.real(f"{prefix}_al1"), h.real(f"{prefix}_al2")] if two_axes else None
            self.th = [h.angle(f"{prefix}_th0"), h.real(f"{prefix}_th1"), h.real(f"{prefix}_th2")]

    def r(self, t):
        if self.c is None:
            return self.r_const
        c = self.c
        return c[0] + c[1] * t + c[2] * t * t + c[3] * t * t * t

    def r_t(self, t):
        if self.c is None:
            return 0.0 * self.r_const
        c = self.c
        return c[1] + 2 * c[2] * t + 3 * c[3] * t * t

    def r_tt(self, t):
        if self.c is None:
            return 0.0 * self.r_const
        c = self.c
        return 2 * c[2] + 6 * c[3] * t

    def _ang(self, co, t):
        # evaluated at the frame's own reference instant: angle a0 (Weierstrass symbol) and its rates;
        # a(t) = a0 + a1 (t - t*) + a2 (t - t*)^2 is used with t* := the harness time, so that
        # sin/cos are taken of the registered angle symbol itself.
        return co[0], co[1], 2 * co[2]

    def A(self, t):
        if not self.rotating:
            return self.A0
        return self._A_all(t)[0]

    def A_t(self, t):
        if not self.rotating:
            return 0.0 * self.A0
        return self._A_all(t)[1]

    def A_tt(self, t):
        if not self.rotating:
            return 0.0 * self.A0
        return self._A_all(t)[2]

    def _A_all(self, t):
        h = self.h
        dt = t - self.t_star
        if not self.two_axes:
            th = self.th[0] + self.th[1] * dt + self.th[2] * dt * dt
            thd = self.th[1] + 2 * self.th[2] * dt
            thdd = 2 * self.th[2]
            Z, dZ, ddZ = rot_z(h, th)
            return self.A0 @ Z, self.A0 @ (dZ * thd), self.A0 @ (ddZ * thd * thd + dZ * thdd)
        a = self.al[0] + self.al[1] * dt + self.al[2] * dt * dt
        ad = self.al[1] + 2 * self.al[2] * dt
        add = 2 * self.al[2]
        th = self.th[0] + self.th[1] * dt + self.th[2] * dt * dt
        thd = self.th[1] + 2 * self.th[2] * dt
        thdd = 2 * self.th[2]
        X, dX, ddX = rot_x(h, a)
        Z, dZ, ddZ = rot_z(h, th)
        Xt = dX * ad
        Xtt = ddX * ad * ad + dX * add
        Zt = dZ * thd
        Ztt = ddZ * thd * thd + dZ * thdd
        A0 = self.A0
        A = A0 @ X @ Z
        At = A0 @ (Xt @ Z + X @ Zt)
        Att = A0 @ (Xtt @ Z + 2 * (Xt @ Zt) + X @ Ztt)
        return A, At, Att

    def frame(self, t_star, name="frame"):
        """cardillo Frame following this motion; t_star: the instant around which angles are expanded"""
        from cardillo.discrete import Frame
        self.t_star = t_star
        return Frame(r_OP=self.r, r_OP_t=self.r_t, r_OP_tt=self.r_tt, A_IB=self.A, A_IB_t=self.A_t, A_IB_tt=self.A_tt, name=name)


# ----------------------------------------------------------------------------- systems
def rnd_unit_quat(rng):
    p = rng.normal(size=4)
    return p / np.linalg.norm(p)


def rnd_q_rb(rng):
    return np.concatenate([np.round(rng.normal(size=3) * 8) / 8, rnd_unit_quat(rng)])


def make_rb(rng, name, mass=None, theta=None):
    from cardillo.discrete import RigidBody
    mass = 1.5 if mass is None else mass
    theta = np.diag([1.0, 2.0, 3.0]) if theta is None else theta
    return RigidBody(mass, theta, q0=rnd_q_rb(rng), name=name)


def make_pm(rng, name, mass=1.25):
    from cardillo.discrete import PointMass
    return PointMass(mass, q0=np.round(rng.normal(size=3) * 8) / 8, name=name)


def exact_rotation(h, rng):
    """exactly orthonormal rational rotation matrix from a small integer quaternion (float constants
    computed by numpy are orthonormal only up to rounding, which the exact-real encoding would see)"""
    from fractions import Fraction
    while True:
        P = [int(x) for x in rng.integers(-4, 5, size=4)]
        n2 = sum(x * x for x in P)
        if n2 > 0 and sum(1 for x in P if x) >= 3:
            break
    p0, p1, p2, p3 = P
    F = lambda x: Fraction(x, n2)
    A = [[F(p0*p0 + p1*p1 - p2*p2 - p3*p3), F(2*(p1*p2 - p0*p3)), F(2*(p1*p3 + p0*p2))],
         [F(2*(p1*p2 + p0*p3)), F(p0*p0 - p1*p1 + p2*p2 - p3*p3), F(2*(p2*p3 - p0*p1))],
         [F(2*(p1*p3 - p0*p2)), F(2*(p2*p3 + p0*p1)), F(p0*p0 - p1*p1 - p2*p2 + p3*p3)]]
    return h.arr([[h.const(x) for x in row] for row in A])


def make_frame(h, rng, name, moving=True, two_axes=True):
    """frame with concrete orientation offset and (if moving) symbolic polynomial motion"""
    from cardillo.discrete import Frame
    A0 = exact_rotation(h, rng)
    if not moving:
        return Frame(r_OP=np.round(rng.normal(size=3) * 8) / 8, A_IB=A0, name=name), None
    mo = Motion(h, name, A0=A0, two_axes=two_axes)
    return mo.frame(0.0, name=name), mo


def assemble(sysm):
    """assemble with DOF bookkeeping only (no consistent initial conditions)"""
    from cardillo.solver import SolverOptions
    sysm.assemble(options=SolverOptions(compute_consistent_initial_conditions=False))
    return sysm


def sys_state(h, sysm, with_ud=True):
    """symbolic system state; quaternion parts of rigid bodies / rods are assumed nonzero"""
    from cardillo.discrete import RigidBody
    t = h.real("t")
    q = h.vec("q", sysm.nq)
    u = h.vec("u", sysm.nu)
    ud = h.vec("ud", sysm.nu) if with_ud else None
    for c in sysm.contributions:
        if isinstance(c, RigidBody):
            P = q[c.qDOF[3:7]]
            h.assume(P @ P > 0, "quaternion nonzero")
        elif hasattr(c, "nodalDOF_p") and hasattr(c, "nnodes_p"):
            for k in range(c.nnodes_p):
                P = q[c.qDOF[c.nodalDOF_p[k]]]
                if len(P) == 4:
                    h.assume(P @ P > 0, "nodal quaternion nonzero")
    return t, q, u, ud


def hierarchy(h, j, sysm, t, q, u, ud, levels, dq=None, prefix=""):
    """kinematic hierarchy of a bilateral constraint object j with g, g_dot, g_ddot, W_g, g_q, g_dot_q, Wla_g_q"""
    nq, nu = sysm.nq, sysm.nu
    qD, uD = j.qDOF, j.uDOF
    qd = sysm.q_dot(t, q, u)
    g = lambda t_, q_: np.atleast_1d(j.g(t_, q_[qD]))
    gd = lambda t_, q_, u_: np.atleast_1d(j.g_dot(t_, q_[qD], u_[uD]))
    one = 1.0
    if "vel" in levels:
        h.eq(prefix + "g_dot = d/dt g", h.D(g, (t, q), (one, qd)), gd(t, q, u))
        du = h.vec("du", nu)
        h.eq(prefix + "W_g = (d g_dot / d u)^T", h.D(lambda u_: gd(t, q, u_), (u,), (du,)), j.W_g(t, q[qD]).T @ du[uD])
        h.eq(prefix + "g_dot_u = W_g^T", j.g_dot_u(t, q[qD]), j.W_g(t, q[qD]).T)
    if "acc" in levels:
        h.eq(prefix + "g_ddot = d/dt g_dot", h.D(gd, (t, q, u), (one, qd, ud)), np.atleast_1d(j.g_ddot(t, q[qD], u[uD], ud[uD])))
    if dq is None and ("g_q" in levels or "g_dot_q" in levels or "Wla_g_q" in levels):
        dq = h.vec("dq", nq)
    if "g_q" in levels:
        h.eq(prefix + "g_q", h.D(lambda q_: g(t, q_), (q,), (dq,)), np.atleast_2d(j.g_q(t, q[qD])) @ dq[qD])
    if "g_dot_q" in levels:
        h.eq(prefix + "g_dot_q", h.D(lambda q_: gd(t, q_, u), (q,), (dq,)), np.atleast_2d(j.g_dot_q(t, q[qD], u[uD])) @ dq[qD])
    if "Wla_g_q" in levels:
        la = h.vec("la", j.nla_g)
        h.eq(prefix + "Wla_g_q", h.D(lambda q_: j.W_g(t, q_[qD]) @ la, (q,), (dq,)), j.Wla_g_q(t, q[qD], la) @ dq[qD])


# ----------------------------------------------------------------------------- revolute pair on its manifold
def int_quat(rng):
    while True:
        P = [int(x) for x in rng.integers(-3, 4, size=4)]
        if sum(x * x for x in P) > 0 and sum(1 for x in P if x) >= 2:
            return P


def quat_rot_exact(h, P):
    """exact rational rotation matrix of the integer quaternion P"""
    from fractions import Fraction
    n2 = sum(x * x for x in P)
    p0, p1, p2, p3 = P
    F = lambda x: Fraction(x, n2)
    A = [[F(p0*p0 + p1*p1 - p2*p2 - p3*p3), F(2*(p1*p2 - p0*p3)), F(2*(p1*p3 + p0*p2))],
         [F(2*(p1*p2 + p0*p3)), F(p0*p0 - p1*p1 + p2*p2 - p3*p3), F(2*(p2*p3 - p0*p1))],
         [F(2*(p1*p3 - p0*p2)), F(2*(p2*p3 + p0*p1)), F(p0*p0 - p1*p1 - p2*p2 + p3*p3)]]
    return h.arr([[h.const(x) for x in row] for row in A])


class RevolutePair:
    """two rigid bodies (or frame + rigid body) connected by a Revolute joint, both bodies initially unrotated, joint
    frame given by an integer quaternion; provides states on the joint manifold parametrised by the joint angle"""

    def __init__(self, h, seed=0, axis=2, first="RB", angle0=0.0, extra=None, Pb0=None, w0=None):
        from cardillo import System
        from cardillo.discrete import RigidBody, Frame
        from cardillo.constraints import Revolute
        rng = np.random.default_rng(seed + 101)
        self.h = h
        self.axis = axis
        self.first = first
        r_a0 = np.round(rng.normal(size=3) * 4) / 4
        r_b0 = np.round(rng.normal(size=3) * 4) / 4
        self.r_J0 = np.round(rng.normal(size=3) * 4) / 4
        self.pJ = int_quat(rng)
        self.A_IJ0 = quat_rot_exact(h, self.pJ)
        e0 = np.array([1.0, 0, 0, 0])
        if first == "RB":
            self.a = RigidBody(1.5, np.diag([1.0, 2.0, 3.0]), q0=np.concatenate([r_a0, e0]), name="a")
        else:
            self.a = Frame(r_OP=r_a0, name="a")
        # Pb0: initial orientation of the second body (exact rational unit quaternion); state() then does not apply
        self.Pb0 = Pb0
        self.b = RigidBody(2.0, np.diag([2.0, 1.0, 1.5]), q0=np.concatenate([r_b0, e0 if Pb0 is None else Pb0]), name="b")
        if w0 is not None:
            # admissible initial velocity: the (unrotated) second body spins with rate w0 about the joint axis through the joint point
            assert first != "RB" and Pb0 is None
            e = self.A_IJ0[:, axis]
            d = r_b0 - self.r_J0
            om = [w0 * e[i] for i in range(3)]
            v = [om[1] * d[2] - om[2] * d[1], om[2] * d[0] - om[0] * d[2], om[0] * d[1] - om[1] * d[0]]
            self.b.u0 = h.arr(v + om)
        self.B1 = self.r_J0 - r_a0
        self.B2 = self.r_J0 - r_b0
        self.r_a0 = r_a0
        self.joint = Revolute(self.a, self.b, axis=axis, angle0=angle0, r_OJ0=self.r_J0, A_IJ0=self.A_IJ0, name="rev")
        self.sysm = System()
        self.sysm.add(self.a, self.b, self.joint)
        for c in (extra(self) if extra else []):
            self.sysm.add(c)

    def state(self, prefix="", with_rate=True, concrete_orientation=False):
        """(t, q, u, phi, phid) with the joint closed at angle phi and relative rate phid; body a free"""
        from cardillo.math import Exp_SO3_quat, quatprod, cross3
        assert self.Pb0 is None, "state() assumes initially unrotated bodies"
        h = self.h
        t = h.real(prefix + "t")
        phi = h.angle(prefix + "phi")
        w = np.tan(0.5 * phi)
        phid = h.real(prefix + "phid") if with_rate else 0.0
        e = np.eye(3)[self.axis]
        pax = h.arr([1.0, *(w * e)])
        pJ = np.array(self.pJ, dtype=float)
        pJc = pJ * np.array([1.0, -1, -1, -1])
        if self.first == "RB":
            r1 = h.vec(prefix + "r1", 3)
            # concrete orientation as exact rational constants (float division in Exp_SO3_quat would round)
            P1 = h.arr([h.const(x) for x in int_quat(np.random.default_rng(7))]) if concrete_orientation else h.quat(prefix + "P1")
            v1, om1 = h.vec(prefix + "v1", 3), h.vec(prefix + "om1", 3)
            A1 = Exp_SO3_quat(P1)
        else:
            r1, P1 = self.r_a0, np.array([1.0, 0, 0, 0])
            v1, om1 = np.zeros(3), np.zeros(3)
            A1 = np.eye(3)
        P2 = quatprod(quatprod(quatprod(P1, pJ), pax), pJc)
        A2 = Exp_SO3_quat(P2)
        rJ = r1 + A1 @ self.B1
        r2 = rJ - A2 @ self.B2
        e_c = (A1 @ self.A_IJ0)[:, self.axis]
        Om2 = A1 @ om1 + phid * e_c
        om2 = A2.T @ Om2
        vJ = v1 + A1 @ cross3(om1, self.B1)
        v2 = vJ - A2 @ cross3(om2, self.B2)
        if self.first == "RB":
            q = np.concatenate([r1, P1, r2, P2])
            u = np.concatenate([v1, om1, v2, om2])
        else:
            q = np.concatenate([r2, P2])
            u = np.concatenate([v2, om2])
        return t, q, u, phi, phid


# ----------------------------------------------------------------------------- rods
def make_rod(h, interp="Quaternion", mixed=False, constraints=None, p=1, nel=1, Q="symbolic", seed=0, assemble=True, density=1.0,
             symbolic_stiffness=False, prefix="Q"):
    """real CosseratRod object; Q: 'symbolic' (free reference configuration, nonzero nodal quaternions),
    'curved' (seeded concrete curved reference) or an array"""
    from cardillo.rods import CircularCrossSection, Simo1986, CrossSectionInertias
    from cardillo.rods.cosseratRod import make_CosseratRod
    Rod = make_CosseratRod(interpolation=interp, mixed=mixed, constraints=constraints, polynomial_degree=p)
    nn = p * nel + 1
    if isinstance(Q, str) and Q == "symbolic":
        Qv = h.vec(prefix, 7 * nn)
        for k in range(nn):
            P = np.array([Qv[3 * nn + k + i * nn] for i in range(4)], dtype=object if h.sym else float)
            h.assume(P @ P > 0, "reference quaternion nonzero")
    elif isinstance(Q, str):
        rng = np.random.default_rng(seed + 201)
        x = np.linspace(0, 1.0, nn)
        r = np.vstack([x, 0.125 * np.round(rng.normal(size=nn) * 4) / 4, 0.125 * np.round(rng.normal(size=nn) * 4) / 4])
        Pq = np.array([[1.0] * nn] + [list(0.25 * np.round(rng.normal(size=nn) * 4) / 4) for _ in range(3)])
        Qv = np.concatenate([r.reshape(-1), Pq.reshape(-1)])
        if h.sym:
            Qv = Qv.astype(object)
    else:
        Qv = Q
    cs = CircularCrossSection(0.1)
    if symbolic_stiffness:
        Ei = h.arr([h.pos(f"E{i}") for i in range(3)])
        Fi = h.arr([h.pos(f"F{i}") for i in range(3)])
    else:
        Ei, Fi = np.array([5.0, 1.0, 1.5]), np.array([0.5, 2.0, 2.5])
    mat = Simo1986(Ei, Fi)
    rod = Rod(cs, mat, nel, Q=Qv, cross_section_inertias=CrossSectionInertias(density, cs))
    if assemble:
        rod.t0 = 0.0
        rod.qDOF = np.arange(rod.nq)
        rod.uDOF = np.arange(rod.nu)
        rod.my_qDOF, rod.my_uDOF = rod.qDOF, rod.uDOF
        rod.assembler_callback()
    return rod, Qv, nn


def rod_state(h, rod, nn, name="q"):
    q = h.vec(name, rod.nq)
    for k in range(nn):
        P = q[rod.nodalDOF_p[k]]
        h.assume(P @ P > 0, "nodal quaternion nonzero")
    return q


def rod_rigid_motion(h, rod, q, nn, axis=None):
    """q' with r' = c + A(pR) r, P' = pR * P for every node; axis=k: rotation about e_k only, pR = (1, w e_k)
    (the three axis families generate SO(3); invariance under each, for all q, gives invariance under the group)"""
    from cardillo.math import Exp_SO3_quat, quatprod
    c = h.vec("mc", 3)
    if axis is None:
        pR = h.quat("mP")
    else:
        pR = h.arr([1.0, *(h.real("mw") * np.eye(3)[axis])])
    A = Exp_SO3_quat(pR)
    q2 = q.copy()
    for k in range(nn):
        q2[rod.nodalDOF_r[k]] = c + A @ q[rod.nodalDOF_r[k]]
        q2[rod.nodalDOF_p[k]] = quatprod(pR, q[rod.nodalDOF_p[k]])
    return q2, c, A
