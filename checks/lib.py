"""Shared builders for the checks (dual-mode: symbolic and float replay)."""
import numpy as np


def spd3(h, name):
    """symmetric positive definite 3x3 as L L^T with positive diagonal"""
    l00, l11, l22 = h.pos(name + "_l00"), h.pos(name + "_l11"), h.pos(name + "_l22")
    l10, l20, l21 = h.real(name + "_l10"), h.real(name + "_l20"), h.real(name + "_l21")
    L = h.arr([[l00, 0.0, 0.0], [l10, l11, 0.0], [l20, l21, l22]])
    return L @ L.T


def rot_x(h, a):
    s, c = np.sin(a), np.cos(a)
    R = h.arr([[1.0, 0.0, 0.0], [0.0, c, -s], [0.0, s, c]])
    dR = h.arr([[0.0, 0.0, 0.0], [0.0, -s, -c], [0.0, c, -s]])
    ddR = h.arr([[0.0, 0.0, 0.0], [0.0, -c, s], [0.0, -s, -c]])
    return R, dR, ddR


def rot_z(h, a):
    s, c = np.sin(a), np.cos(a)
    R = h.arr([[c, -s, 0.0], [s, c, 0.0], [0.0, 0.0, 1.0]])
    dR = h.arr([[-s, -c, 0.0], [c, -s, 0.0], [0.0, 0.0, 0.0]])
    ddR = h.arr([[-c, s, 0.0], [-s, -c, 0.0], [0.0, 0.0, 0.0]])
    return R, dR, ddR


class Motion:
    """prescribed frame motion: r(t) cubic with free coefficients, A(t) = A0 Rx(alpha(t)) Rz(theta(t)),
    alpha/theta quadratic with free coefficients; derivatives supplied in closed form (as a user would)."""

    def __init__(self, h, prefix, rotating=True, translating=True, A0=None):
        from cardillo.math import Exp_SO3_quat
        self.h = h
        self.c = [h.vec(f"{prefix}_r{k}_", 3) for k in range(4)] if translating else None
        self.r_const = None if translating else h.vec(f"{prefix}_r", 3)
        self.rotating = rotating
        if A0 is None:
            A0 = Exp_SO3_quat(h.quat(f"{prefix}_P"))
        self.A0 = A0
        if rotating:
            self.al = [h.angle(f"{prefix}_al0"), h.real(f"{prefix}_al1"), h.real(f"{prefix}_al2")]
            self.th = [h.angle(f"{prefix}_th0"), h.real(f"{prefix}_th1"), h.real(f"{prefix}_th2")]

    def r(self, t):
        if self.c is None:
            return self.r_const
        c = self.c
        return c[0] + c[1] * t + c[2] * t * t + c[3] * t * t * t

    def r_t(self, t):
        if self.c is None:
            return 0.0 * self.r_const
        c = self.c
        return c[1] + 2 * c[2] * t + 3 * c[3] * t * t

    def r_tt(self, t):
        if self.c is None:
            return 0.0 * self.r_const
        c = self.c
        return 2 * c[2] + 6 * c[3] * t

    def _ang(self, co, t):
        # evaluated at the frame's own reference instant: angle a0 (Weierstrass symbol) and its rates;
        # a(t) = a0 + a1 (t - t*) + a2 (t - t*)^2 is used with t* := the harness time, so that
        # sin/cos are taken of the registered angle symbol itself.
        return co[0], co[1], 2 * co[2]

    def A(self, t):
        if not self.rotating:
            return self.A0
        return self._A_all(t)[0]

    def A_t(self, t):
        if not self.rotating:
            return 0.0 * self.A0
        return self._A_all(t)[1]

    def A_tt(self, t):
        if not self.rotating:
            return 0.0 * self.A0
        return self._A_all(t)[2]

    def _A_all(self, t):
        h = self.h
        dt = t - self.t_star
        a = self.al[0] + self.al[1] * dt + self.al[2] * dt * dt
        ad = self.al[1] + 2 * self.al[2] * dt
        add = 2 * self.al[2]
        th = self.th[0] + self.th[1] * dt + self.th[2] * dt * dt
        thd = self.th[1] + 2 * self.th[2] * dt
        thdd = 2 * self.th[2]
        X, dX, ddX = rot_x(h, a)
        Z, dZ, ddZ = rot_z(h, th)
        Xt = dX * ad
        Xtt = ddX * ad * ad + dX * add
        Zt = dZ * thd
        Ztt = ddZ * thd * thd + dZ * thdd
        A0 = self.A0
        A = A0 @ X @ Z
        At = A0 @ (Xt @ Z + X @ Zt)
        Att = A0 @ (Xtt @ Z + 2 * (Xt @ Zt) + X @ Ztt)
        return A, At, Att

    def frame(self, t_star, name="frame"):
        """cardillo Frame following this motion; t_star: the instant around which angles are expanded"""
        from cardillo.discrete import Frame
        self.t_star = t_star
        return Frame(r_OP=self.r, r_OP_t=self.r_t, r_OP_tt=self.r_tt, A_IB=self.A, A_IB_t=self.A_t, A_IB_tt=self.A_tt, name=name)
