"""C25 Revolute joint angle tracks the accumulated relative rotation (inductive step)."""
import numpy as np
from symx.run import Case
from checks import lib

PROPERTY = "C25"
META = dict(
    level="proof",
    bounds="one inductive step from an ARBITRARY tracking state satisfying the invariant (n_full_rotations = any integer-valued n with |n| <= 1000, "
           "previous_quadrant = quadrant of the previous angle), previous quadrant in {1,2,3,4} x wrap count m in {-1,0,1} x all four branches of the real "
           "quadrant code, increment |delta| < pi/2, joint angle phi in [0, 2 pi) \\ {pi} by its Weierstrass symbol with the range facts of tan(phi/2) "
           "as axioms; frame-to-rigid-body joint on its manifold, axes {0,1,2}; libm's arctan resolved by solver-checked shifted-angle hints.  One step "
           "covers histories of any length (induction on the invariant).  Rate clause: joint between two rigid bodies (first body free to tumble) and "
           "frame-to-body, symbolic state on the joint manifold: l_dot = relative rate about the current axis.  Tolerance 1e-9 for the double np.pi against pi.",
    assumptions=["invariant: reported angle = angle0 + 2 pi n + phi_prev with phi_prev in [0, 2 pi) lying in previous_quadrant",
                 "range facts of w = tan(phi/2) per quadrant (true facts about tan, stated as axioms); phi = pi exactly is outside this chart",
                 "PI in (3.14159265358979323, 3.14159265358979324), np.pi its double"],
    trusted_base=["Weierstrass parametrisation", "quadrant range axioms for tan(phi/2)"],
)


def step(h, Qp=1, m=0, axis=2, seed=0):
    from fractions import Fraction
    rp = lib.RevolutePair(h, seed=seed, axis=axis, first="F", angle0=h.angle("angle0"))
    lib.assemble(rp.sysm)
    j = rp.joint
    t, q, u, phi, phid = rp.state()
    delta = h.real("delta")
    n = h.real("n")
    if h.sym:
        import z3
        from symx import core
        C = core.CTX
        PI = core.PI
        C.axioms.extend(core.pi_axioms())
        ph = core.term(phi.v.n)
        w = C.atoms[("w", phi.v.n.get_id(), phi.v.e)][1]
        C.assumes += [ph >= 0, ph < 2 * PI, ph != PI]
        C.axioms += [(z3.And(ph >= 0, ph < PI / 2)) == z3.And(w >= 0, w < 1),
                     (z3.And(ph >= PI / 2, ph < PI)) == (w >= 1),
                     (z3.And(ph > PI, ph < 3 * PI / 2)) == (w < -1),
                     (z3.And(ph >= 3 * PI / 2, ph < 2 * PI)) == z3.And(w >= -1, w < 0)]
        d = core.term(delta.v.n)
        C.assumes += [d > -PI / 2, d < PI / 2]
        php = ph - d + 2 * PI * m                   # previous angle modulo 2 pi
        C.assumes += [php >= (Qp - 1) * PI / 2, php < Qp * PI / 2]
        nn = core.term(n.v.n)
        k = z3.Int("k_turns")
        C.assumes += [nn == z3.ToReal(k), nn <= 1000, nn >= -1000]
        pi_s = core.S(core.Q(PI))
    else:
        pi_s = np.pi
        php = phi - delta + 2 * np.pi * m
        h.assume(0 <= phi < 2 * np.pi and abs(phi - np.pi) > 1e-9, "phi in [0, 2 pi) \\ {pi}")
        h.assume(abs(delta) < np.pi / 2, "|delta| < pi/2")
        h.assume((Qp - 1) * np.pi / 2 <= php < Qp * np.pi / 2, "previous angle in its quadrant")
        h.assume(abs(n - round(n)) < 1e-12 and abs(n) <= 1000, "n integer")
    # tracking state satisfying the invariant
    j.n_full_rotations = n
    j.previous_quadrant = Qp
    ang = j.l(t, q[j.qDOF])
    h.eq("tracked turns after the step = n + wrap count", j.n_full_rotations, n + m)
    h.eq("reported angle = angle0 + 2 pi (n + m) + phi", ang, j.angle0 + 2 * pi_s * (n + m) + phi, tol=1e-9)
    qn = j.previous_quadrant
    if h.sym:
        lo, hi = (qn - 1) * PI / 2, qn * PI / 2
        h.holds("stored quadrant is the quadrant of the new angle", z3.And(ph >= lo, ph < hi))
    else:
        h.holds("stored quadrant is the quadrant of the new angle", (qn - 1) * np.pi / 2 <= phi < qn * np.pi / 2)
    # a repeated query at the same configuration changes nothing
    n1, q1 = j.n_full_rotations, j.previous_quadrant
    ang2 = j.l(t, q[j.qDOF])
    h.eq("repeated query: same angle", ang2, ang)
    h.eq("repeated query: same turn count", j.n_full_rotations, n1)
    h.holds("repeated query: same quadrant", j.previous_quadrant == q1)
    # reset restores the initial tracking state
    j.reset()
    h.holds("reset restores the initial tracking state", j.n_full_rotations == 0 and j.previous_quadrant == 1)


def rate(h, axis=2, first="RB", seed=0):
    """reported angle rate = relative angular velocity about the (current) joint axis = d/dt of the reported angle, first body free to tumble"""
    rp = lib.RevolutePair(h, seed=seed, axis=axis, first=first, angle0=h.real("angle0"))
    lib.assemble(rp.sysm)
    j = rp.joint
    t, q, u, phi, phid = rp.state()
    ld = j.l_dot(t, q[j.qDOF], u[j.uDOF])
    h.eq("angle rate = rate of the relative rotation about the axis", ld, phid)
    if first == "RB":
        A1 = rp.a.A_IB(t, q[rp.a.qDOF])
        e_c = (A1 @ rp.A_IJ0)[:, axis]
        Om1 = A1 @ u[rp.a.uDOF][3:]
        Om2 = rp.b.A_IB(t, q[rp.b.qDOF]) @ u[rp.b.uDOF][3:]
        h.eq("angle rate = (Omega2 - Omega1) . current joint axis", ld, (Om2 - Om1) @ e_c)


def initial(h, axis=2, seed=0):
    """the tracking state established by assembly is the invariant at the defining configuration (relative angle 0, quadrant 1)"""
    rp = lib.RevolutePair(h, seed=seed, axis=axis, first="F", angle0=h.real("angle0"))
    lib.assemble(rp.sysm)
    j = rp.joint
    h.holds("assembly: zero turns, quadrant 1", j.n_full_rotations == 0 and j.previous_quadrant == 1)
    q0 = rp.sysm.q0
    h.eq("angle in the defining configuration = angle0", j.l(rp.sysm.t0, q0[j.qDOF]), j.angle0, tol=1e-9)


def cases(tier, seed):
    T = 120 if tier == "quick" else 600
    cs = []
    axes = ((seed % 3,) if tier == "quick" else (0, 1, 2))
    if tier == "quick":
        # the other two axes: defining configuration, rate and one forward / one backward step each
        for axis in (0, 1, 2):
            if axis in axes:
                continue
            cs.append(Case(f"initial/ax{axis}", initial, dict(axis=axis, seed=seed), timeout=T, sentinel=False))
            cs.append(Case(f"rate/ax{axis}/RB", rate, dict(axis=axis, first="RB", seed=seed), timeout=T, hard=T * 10))
            cs.append(Case(f"step/ax{axis}/prevQ1/wrap0", step, dict(Qp=1, m=0, axis=axis, seed=seed), timeout=T, hard=T * 10, sentinel=False))
            cs.append(Case(f"step/ax{axis}/prevQ1/wrap-1", step, dict(Qp=1, m=-1, axis=axis, seed=seed), timeout=T, hard=T * 10, sentinel=False))
    for axis in axes:
        cs.append(Case(f"initial/ax{axis}", initial, dict(axis=axis, seed=seed), timeout=T, sentinel=False))
        for first in ("RB", "F"):
            cs.append(Case(f"rate/ax{axis}/{first}", rate, dict(axis=axis, first=first, seed=seed), timeout=T, hard=T * 10))
        for Qp in (1, 2, 3, 4):
            for m in (-1, 0, 1):
                # a wrap is only possible from the quadrants next to the positive x axis
                if (m == 1 and Qp != 4) or (m == -1 and Qp != 1):
                    continue
                cs.append(Case(f"step/ax{axis}/prevQ{Qp}/wrap{m}", step, dict(Qp=Qp, m=m, axis=axis, seed=seed), timeout=T, hard=T * 10, sentinel=False))
    return cs
