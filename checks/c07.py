"""C07 Force elements are energetically consistent and passive."""
import numpy as np
from symx.run import Case
from checks import lib

PROPERTY = "C07"
META = dict(
    level="proof",
    bounds="force laws {Spring, KelvinVoigtElement (force and compliance form), MaxwellElement} on TwoPointInteraction x pairings "
           "{PM-PM, PM-RB, F-RB (fixed frame), RB-RB (thorough)} with seeded concrete body-fixed attachment offsets, and on a Revolute joint "
           "(RB-RB and Frame-RB) with states ON the joint manifold parametrised by the joint angle (Weierstrass symbol) and an arbitrary pose and "
           "velocity of the first body; Force on RB / PM (constant and time-dependent force vector); k, d, eta > 0 and l_ref symbolic; "
           "System.E_pot on assembled systems containing every E_pot contributor (Force, force laws, Maxwell, rod, rod line load).",
    assumptions=["quaternions nonzero; k, d, eta > 0", "distance of the two points nonzero (sqrt atom, denominators)",
                 "revolute manifold: second body composed from the first and the joint angle (every on-manifold state with angle != pi)"],
    trusted_base=[],
)


def _mk(h, kind, rng, name):
    if kind == "RB":
        return lib.make_rb(rng, name)
    if kind == "PM":
        return lib.make_pm(rng, name)
    # the energy clauses are about scleronomic attachments: a prescribed (moving) frame exchanges energy with the element
    return lib.make_frame(h, rng, name, moving=False)[0]


def build_tpi(h, pairing, law, form, seed, lref_default=False):
    from cardillo import System
    from cardillo.interactions import TwoPointInteraction
    from cardillo.force_laws import Spring, KelvinVoigtElement, MaxwellElement
    rng = np.random.default_rng(seed + 31)
    s1, s2 = pairing.split("-")
    a, b = _mk(h, s1, rng, "a"), _mk(h, s2, rng, "b")
    B1 = np.round(rng.normal(size=3) * 4) / 4 if s1 != "PM" else np.zeros(3)
    B2 = np.round(rng.normal(size=3) * 4) / 4 if s2 != "PM" else np.zeros(3)
    tpi = TwoPointInteraction(a, b, B_r_CP1=B1, B_r_CP2=B2)
    k = h.pos("k")
    lref = None if lref_default else h.real("lref")
    par = dict(k=k)
    if law == "Spring":
        el = Spring(tpi, k, l_ref=lref, compliance_form=(form == "compliance"))
    elif law == "KelvinVoigt":
        par["d"] = h.pos("d")
        el = KelvinVoigtElement(tpi, k, par["d"], l_ref=lref, compliance_form=(form == "compliance"))
    else:
        par["eta"] = h.pos("eta")
        el = MaxwellElement(tpi, k, par["eta"], l_ref=lref)
    sysm = System()
    sysm.add(a, b, tpi, el) if law == "Maxwell" else sysm.add(a, b, el)
    lib.assemble(sysm)
    return sysm, tpi, el, par, lref


def tpi_energy(h, pairing="PM-PM", law="Spring", form="force", seed=0):
    sysm, tpi, el, par, lref = build_tpi(h, pairing, law, form, seed)
    t, q, u, ud = lib.sys_state(h, sysm, with_ud=False)
    qd = sysm.q_dot(t, q, u)
    qD, uD = el.qDOF, el.uDOF
    one = 1.0
    E = lambda t_, q_: el.E_pot(t_, q_[qD])
    Ed = h.D(E, (t, q), (one, qd))
    k = par["k"]
    if law == "Maxwell":
        P = el.h(t, q[qD], u[uD]) @ u[uD]
        s = tpi.l(t, q[tpi.qDOF]) - q[el.my_qDOF[0]] - lref
        h.eq("Maxwell: power + stored-energy rate = -(k^2/eta) s^2", P + Ed, -(k * k / par["eta"]) * s * s)
        sa = h.abstract("s", s)
        h.le("Maxwell: passive: -(k^2/eta) s^2 <= 0 for every s", -(k * k / par["eta"]) * sa * sa, 0.0)
        return
    if form == "force":
        P = el.h(t, q[qD], u[uD]) @ u[uD]
        if law == "Spring":
            h.eq("Spring: power = - d/dt E_pot", P, -Ed)
        else:
            ld = tpi.l_dot(t, q[qD], u[uD])
            h.eq("KelvinVoigt: power + stored-energy rate = -d l_dot^2", P + Ed, -par["d"] * ld * ld)
            lda = h.abstract("ld", ld)
            h.le("KelvinVoigt: passive: -d l_dot^2 <= 0 for every l_dot", -par["d"] * lda * lda, 0.0)
        h.eq("l_dot = d/dt l", h.D(lambda t_, q_: tpi.l(t_, q_[qD]), (t, q), (one, qd)), tpi.l_dot(t, q[qD], u[uD]))
        h.eq("W_l^T u = l_dot", tpi.W_l(t, q[qD]) @ u[uD], tpi.l_dot(t, q[qD], u[uD]))
    else:
        la = el.la_c(t, q[qD], u[uD])
        h.eq("compliance residual vanishes at the force-form force", el.c(t, q[qD], u[uD], la), 0.0)
        h.eq("W_c = W_l", el.W_c(t, q[qD]).reshape(-1), tpi.W_l(t, q[qD]).reshape(-1))
        # the compliance form describes the same force: c(la) = 0 has the unique solution la = la_c (c is affine in la with slope c_la_c != 0)
        la2 = h.real("la2")
        h.eq("c is affine in la_c with slope c_la_c", el.c(t, q[qD], u[uD], la2) - el.c(t, q[qD], u[uD], la), el.c_la_c() * (la2 - la))


def force_energy(h, sub="RB", timedep=False, seed=0):
    from cardillo import System
    from cardillo.forces import Force
    rng = np.random.default_rng(seed + 41)
    body = lib.make_rb(rng, "body") if sub == "RB" else lib.make_pm(rng, "body")
    F0 = h.vec("F", 3)
    B = h.vec("B", 3) if sub == "RB" else np.zeros(3)
    if timedep:
        F1 = h.vec("F1", 3)
        f = Force(lambda t: F0 + t * F1, body, B_r_CP=B)
    else:
        f = Force(F0, body, B_r_CP=B)
    sysm = System()
    sysm.add(body, f)
    lib.assemble(sysm)
    t, q, u, ud = lib.sys_state(h, sysm, with_ud=False)
    qd = sysm.q_dot(t, q, u)
    # power of the force at frozen load = minus the energy rate along the motion (t frozen in E_pot)
    h.eq("Force: power = - dE_pot/dq . q_dot", f.h(t, q[f.qDOF], u[f.uDOF]) @ u[f.uDOF],
         -h.D(lambda q_: f.E_pot(t, q_[f.qDOF]), (q,), (qd,)))
    h.call("System.E_pot evaluates", sysm.E_pot, t, q)
    h.eq("System.E_pot = Force.E_pot", sysm.E_pot(t, q), f.E_pot(t, q[f.qDOF]))


def revolute_energy(h, first="RB", law="Spring", axis=2, seed=0, concrete_orientation=False):
    from cardillo.force_laws import Spring, KelvinVoigtElement
    k = h.pos("k")
    lref = h.real("lref")
    par = {}

    def extra(rp):
        if law == "Spring":
            el = Spring(rp.joint, k, l_ref=lref, compliance_form=False)
        else:
            par["d"] = h.pos("d")
            el = KelvinVoigtElement(rp.joint, k, par["d"], l_ref=lref, compliance_form=False)
        rp.el = el
        return [el]
    h.option("arctan_hints", False)     # only the derivative of the angle is used here
    rp = lib.RevolutePair(h, seed=seed, axis=axis, first=first, extra=extra)
    lib.assemble(rp.sysm)
    t, q, u, phi, phid = rp.state(concrete_orientation=concrete_orientation)
    j, el, sysm = rp.joint, rp.el, rp.sysm
    qd = sysm.q_dot(t, q, u)
    qD, uD = j.qDOF, j.uDOF
    one = 1.0
    ld_true = h.D(lambda t_, q_: j.l(t_, q_[qD]), (t, q), (one, qd))
    h.eq("Revolute (on manifold): l_dot = d/dt l", ld_true, j.l_dot(t, q[qD], u[uD]))
    h.eq("Revolute: W_l^T u = l_dot", j.W_l(t, q[qD]).reshape(-1) @ u[uD], j.l_dot(t, q[qD], u[uD]))
    h.eq("Revolute (on manifold): l_dot = relative rate", j.l_dot(t, q[qD], u[uD]), phid)
    E = lambda t_, q_: el.E_pot(t_, q_[el.qDOF])
    Ed = h.D(E, (t, q), (one, qd))
    P = el.h(t, q[el.qDOF], u[el.uDOF]) @ u[el.uDOF]
    if law == "Spring":
        h.eq("Spring on Revolute: power = - d/dt E_pot", P, -Ed)
    else:
        ld = j.l_dot(t, q[qD], u[uD])
        h.eq("KelvinVoigt on Revolute: power + stored-energy rate = -d l_dot^2", P + Ed, -par["d"] * ld * ld)


def total_energy(h, part="tpi", seed=0):
    """System.E_pot succeeds on systems holding every kind of E_pot contributor and equals the sum of the contributions"""
    from cardillo import System
    from cardillo.forces import Force
    from cardillo.interactions import TwoPointInteraction
    from cardillo.force_laws import Spring, KelvinVoigtElement, MaxwellElement
    from cardillo.constraints import Revolute
    h.option("arctan_hints", False)
    rng = np.random.default_rng(seed + 51)
    a, b, c = lib.make_rb(rng, "a"), lib.make_pm(rng, "b"), lib.make_pm(rng, "c")
    sysm = System()
    if part == "tpi":
        els = [Force(np.array([0.0, 0.0, -9.81]), a), Spring(TwoPointInteraction(a, c), 10.0, l_ref=1.0, compliance_form=False),
               KelvinVoigtElement(TwoPointInteraction(b, c), 5.0, 1.0, l_ref=0.5, compliance_form=True),
               MaxwellElement(TwoPointInteraction(a, b), 3.0, 2.0, l_ref=0.25)]
        sysm.add(a, b, c, els[3].subsystem, *els)
    else:
        def extra(rp):
            rp.els = [Force(np.array([0.0, 0.0, -9.81]), rp.b), Spring(rp.joint, 4.0, l_ref=0.0, compliance_form=False, name="rot_spring"),
                      KelvinVoigtElement(rp.joint, 4.0, 1.0, l_ref=0.5, compliance_form=True, name="rot_kv")]
            return rp.els
        rp = lib.RevolutePair(h, seed=seed, axis=1, first="RB", extra=extra)
        sysm, els = rp.sysm, rp.els
        lib.assemble(sysm)
        t, q, u, phi, phid = rp.state(with_rate=False, concrete_orientation=True)   # on the joint manifold
        E = h.call("System.E_pot evaluates", sysm.E_pot, t, q)
        if E is not None:
            tot = 0.0
            for e in els:
                tot = tot + e.E_pot(t, q[e.qDOF])
            h.eq("System.E_pot = sum of the contributions", E, tot)
        return
    lib.assemble(sysm)
    t, q, u, ud = lib.sys_state(h, sysm, with_ud=False)
    E = h.call("System.E_pot evaluates", sysm.E_pot, t, q)
    if E is not None:
        tot = 0.0
        for e in els:
            tot = tot + e.E_pot(t, q[e.qDOF])
        h.eq("System.E_pot = sum of the contributions", E, tot)


def line_load(h, interp="Quaternion", nel=1, seed=0, p=1):
    """rod with a line-distributed dead load: power of the load = minus the rate of its potential; System.E_pot evaluates"""
    from cardillo import System
    from cardillo.rods.force_line_distributed import Force_line_distributed
    rod, Q, nn = lib.make_rod(h, interp=interp, mixed=False, p=p, nel=nel, Q="curved", seed=seed, assemble=False)
    F = h.vec("F", 3)
    load = Force_line_distributed(F, rod)
    sysm = System()
    sysm.add(rod, load)
    lib.assemble(sysm)
    t = h.real("t")
    q = lib.rod_state(h, rod, nn)
    u = h.vec("u", sysm.nu)
    E = h.call("System.E_pot evaluates with a line load", sysm.E_pot, t, q)
    if E is None:
        return
    qd = sysm.q_dot(t, q, u)
    P = load.h(t, q[load.qDOF], u[load.uDOF]) @ u[load.uDOF]
    h.eq("line load: power = - d/dt E_pot", P, -h.D(lambda q_: load.E_pot(t, q_[load.qDOF]), (q,), (qd,)))
    h.eq("System.E_pot = rod strain energy + load potential", E, rod.E_pot(t, q[rod.qDOF]) + load.E_pot(t, q[load.qDOF]))


def cases(tier, seed):
    T = 120 if tier == "quick" else 900
    cs = []
    pairings = ("PM-PM", "PM-RB", "RB-PM", "F-RB") if tier == "quick" else ("PM-PM", "PM-RB", "RB-PM", "F-RB", "RB-F", "RB-RB")
    for p in pairings:
        for law, form in (("Spring", "force"), ("Spring", "compliance"), ("KelvinVoigt", "force"), ("KelvinVoigt", "compliance"), ("Maxwell", "force")):
            cs.append(Case(f"tpi/{p}/{law}/{form}", tpi_energy, dict(pairing=p, law=law, form=form, seed=seed), timeout=T, hard=T * 8))
    for sub in ("RB", "PM"):
        for td in (False, True):
            cs.append(Case(f"force/{sub}/{'timedep' if td else 'const'}", force_energy, dict(sub=sub, timedep=td, seed=seed), timeout=T))
    firsts = ("RB", "F") if tier == "quick" else ("RB", "F")
    for first in firsts:
        for law in ("Spring", "KelvinVoigt"):
            for axis in ((seed % 3,) if tier == "quick" else (0, 1, 2)):
                cs.append(Case(f"revolute/{first}/{law}/ax{axis}", revolute_energy,
                               dict(first=first, law=law, axis=axis, seed=seed, concrete_orientation=(tier == "quick")), timeout=T, hard=T * 10))
    for interp in ("Quaternion", "R12"):
        for nel in (1, 2):
            cs.append(Case(f"line_load/{interp}/nel{nel}", line_load, dict(interp=interp, nel=nel, seed=seed), timeout=T))
    # quadratic elements: the reference stretch varies inside an element (static and dynamic quadrature differ)
    cs.append(Case("line_load/Quaternion/p2/nel1", line_load, dict(interp="Quaternion", nel=1, seed=seed, p=2), timeout=T, hard=T * 8))
    if tier == "quick":
        for axis in (0, 1, 2):
            if axis != seed % 3:
                cs.append(Case(f"revolute/F/Spring/ax{axis}", revolute_energy, dict(first="F", law="Spring", axis=axis, seed=seed, concrete_orientation=True), timeout=T, hard=T * 10))
    cs.append(Case("system/E_pot/tpi", total_energy, dict(part="tpi", seed=seed), timeout=T))
    cs.append(Case("system/E_pot/revolute", total_energy, dict(part="revolute", seed=seed), timeout=T))
    return cs
