"""C17 Integrators keep bilateral constraints and unit quaternions at every step (per-step algebraic guarantees)."""
import numpy as np
from symx.run import Case
from checks import lib

PROPERTY = "C17"
META = dict(
    level="proof",
    bounds="one step from an ARBITRARY symbolic state (inductive step, not a simulation) on grid systems {rigid body - Revolute - fixed frame, point mass - "
           "FixedDistance - frame, rigid body - Spherical - frame}, all with an external force: Moreau.step (real method; the linear solve is the LU stub): the "
           "rows of the recorded system A x - b are identically the momentum balance and -g_dot(t_{n+1/2}, q_{n+1/2}, x_u); BackwardEuler.R_x and Rattle.R_x1 rows "
           "are identically g / gamma / c at (t_{n+1}, q_{n+1}) evaluated by an independent call; step_callback: unit quaternions, g and g_dot unchanged; "
           "ScipyIVP.la_g_la_gamma_la_c with the exact (Cramer) inverse: equations of motion and g_ddot = 0.  With the fsolve contract of C22 a converged "
           "step bounds |g_i| by the tolerance.  Rattle stage 2 (velocity stage): one real solve() step with stage 1 replaced by an arbitrary result and a MOVING anchor: rows of the recorded "
           "system are the momentum balance and -g_dot(t_{n+1}, q_{n+1}, u_{n+1}).  ScipyIVP also with a motor and a compliance-form spring on a revolute joint "
           "(concrete configuration, symbolic velocity / torque / stiffness).  DualStormerVerlet: the real _step (LU variant) on a point mass with a distance constraint "
           "to a MOVING anchor, the two fixed-point helpers replaced by their contract (C22): at a fixed point the rows of the step's last linear system are the "
           "momentum balance with the stored percussion and (2/dt) g(t_{n+1}, q_{n+1}).  ScipyDAE / ScipyIVP: tolerances, output grid and initial state are forwarded to the third-party integrator (whose accuracy is trusted).  "
           "Stored step 0: assembly normalises the initial quaternion with and without the initial-condition solve.  Outside: ScipyDAE drift (third-party integrator), DualStormerVerlet's MINRES variants "
           "(third-party iterative solver), accumulated error over many steps.",
    assumptions=["LU contract: the stubbed linear solve returns x with A x = b (the single trusted implication)", "quaternions nonzero, dt > 0"],
    trusted_base=["LU contract", "Cramer inverse for the ScipyIVP case (nu <= 3)"],
)


def build(h, which, seed, moving=False):
    import cardillo.constraints as C
    from cardillo import System
    from cardillo.discrete import Frame
    from cardillo.forces import Force
    rng = np.random.default_rng(seed + 91)
    r0 = np.array([0.25, 0.0, 0.5])
    if moving:
        # rheonomic anchor: prescribed translation with symbolic velocity / acceleration coefficients (closed-form derivatives, as a user supplies them)
        v, a = h.vec("fr_v", 3), h.vec("fr_a", 3)
        fr = Frame(r_OP=lambda t: r0 + v * t + a * (t * t), r_OP_t=lambda t: v + 2 * a * t, r_OP_tt=lambda t: 2 * a + 0 * t, name="fr")
    else:
        fr = Frame(r_OP=r0, name="fr")
    if which == "revolute":
        b = lib.make_rb(rng, "b")
        j = C.Revolute(fr, b, axis=1, r_OJ0=np.array([0.25, 0.0, 0.5]), A_IJ0=np.eye(3))
    elif which == "spherical":
        b = lib.make_rb(rng, "b")
        j = C.Spherical(fr, b, r_OJ0=np.array([0.25, 0.0, 0.5]))
    else:
        b = lib.make_pm(rng, "b")
        b.q0 = np.array([1.0, 0.5, 0.25])
        j = C.FixedDistance(fr, b)
    sysm = System()
    sysm.add(fr, b, j, Force(np.array([0.5, 0.0, -9.81]), b))
    lib.assemble(sysm)
    return sysm, b, j


def _state(h, sysm, b):
    q = h.vec("q", sysm.nq)
    if sysm.nq == 7:
        h.assume(q[3:] @ q[3:] > 0, "quaternion nonzero")
    return h.real("t"), q, h.vec("u", sysm.nu)


def moreau_step(h, which="revolute", seed=0, moving=False):
    from cardillo.solver import Moreau
    sysm, b, j = build(h, which, seed, moving=moving)
    with h.capture():
        sol = Moreau(sysm, 1.0, 0.1)
    tn, qn, un = _state(h, sysm, b)
    dt = h.pos("dt")
    sol.dt, sol.tn, sol.qn, sol.un = dt, tn, qn, un
    if h.sym:
        from symx import shims
        sysm._M0 = shims.SymMat(np.asarray(sysm._M0.toarray(), dtype=object))
    with h.capture():
        out = sol.step()
    (conv, jj, err), tn1, qn1, un1, P_g, P_gamma, la_c, P_N, P_F = out
    h.eq("t_{n+1} = t_n + dt", tn1, tn + dt)
    h.eq("t_{n+1/2} = t_n + dt/2", sol.tn12, tn + 0.5 * dt)
    nu = sysm.nu
    if h.sym:
        rec = h.lu_log()[-1]
        A, bb, x = rec["A"], rec["b"], rec["x"]
        res = A @ x - bb
        h.eq("returned velocity is the linear solve's solution", un1, x[:nu])
        h.eq("returned percussion is the linear solve's solution", P_g, x[nu:nu + sysm.nla_g])
        gd = sysm.g_dot(sol.tn12, sol.qn12, x[:nu])
        h.eq("constraint rows of the step's linear system = -g_dot(t_{n+1/2}, q_{n+1/2}, u_{n+1})", res[nu:nu + sysm.nla_g], -gd)
        M = np.asarray(sysm.M(sol.tn12, sol.qn12).toarray())
        hh = sysm.h(sol.tn12, sol.qn12, un)
        W = np.asarray(sysm.W_g(sol.tn12, sol.qn12).toarray())
        h.eq("momentum rows = M (u_{n+1} - u_n) - dt h - W_g P_g", res[:nu], M @ (x[:nu] - un) - dt * hh - W @ x[nu:nu + sysm.nla_g])
    else:
        gd = sysm.g_dot(sol.tn12, sol.qn12, un1)
        h.eq("constraint rows of the step's linear system = -g_dot(t_{n+1/2}, q_{n+1/2}, u_{n+1})", gd, np.zeros(sysm.nla_g), tol=1e-8)
    h.eq("midpoint configuration q_{n+1/2} = q_n + dt/2 q_dot(t_n, q_n, u_n)", sol.qn12, qn + 0.5 * dt * sysm.q_dot(tn, qn, un))
    h.eq("q_{n+1} = q_{n+1/2} + dt/2 q_dot(t_{n+1/2}, q_{n+1/2}, u_{n+1})", qn1, sol.qn12 + 0.5 * dt * sysm.q_dot(sol.tn12, sol.qn12, un1))


def residual_rows(h, solver="BackwardEuler", which="revolute", seed=0):
    import cardillo.solver as S
    sysm, b, j = build(h, which, seed)
    with h.capture():
        sol = getattr(S, solver)(sysm, 1.0, 0.1)
    tn, qn, un = _state(h, sysm, b)
    dt = h.pos("dt")
    sol.dt, sol.tn, sol.qn, sol.un = dt, tn, qn, un
    if solver == "BackwardEuler":
        x = h.vec("x", len(sol.xn))
        y = h.vec("y", len(sol.yn))
        R = sol.R_x(x, y)
        sx = sol.split_x
        dq, du, dPg = x[:sx[0]], x[sx[0]:sx[1]], x[sx[1]:sx[2]]
        tn1, qn1, un1 = tn + dt, qn + dq, un + du
        h.eq("constraint rows = g(t_{n+1}, q_{n+1})", R[sx[1]:sx[2]], np.atleast_1d(sysm.g(tn1, qn1)))
        h.eq("kinematic rows = dq - dt q_dot(t_{n+1}, q_{n+1}, u_{n+1})", R[:sx[0]], dq - dt * sysm.q_dot(tn1, qn1, un1))
        M = np.asarray(sysm.M(tn1, qn1).toarray())
        W = np.asarray(sysm.W_g(tn1, qn1).toarray())
        h.eq("momentum rows = M du - dt h - W_g dP_g", R[sx[0]:sx[1]], M @ du - dt * sysm.h(tn1, qn1, un1) - W @ dPg)
    else:
        if h.sym:
            from symx import shims
            for nm in ("Mn", "Bn", "W_taun", "W_cn", "W_gn", "W_gamman", "W_Nn", "W_Fn"):
                pass
        # Rattle precomputes matrices at (t_n, q_n) in its constructor: refresh them for the symbolic state
        sol.Mn = sysm.M(tn, qn, format="csr")
        sol.Bn = sysm.q_dot_u(tn, qn, format="csr")
        sol.betan = sysm.q_dot(tn, qn, 0 * un)
        sol.W_taun, sol.W_cn = sysm.W_tau(tn, qn, format="csr"), sysm.W_c(tn, qn, format="csr")
        sol.W_gn, sol.W_gamman = sysm.W_g(tn, qn, format="csr"), sysm.W_gamma(tn, qn, format="csr")
        sol.W_Nn, sol.W_Fn = sysm.W_N(tn, qn, format="csr"), sysm.W_F(tn, qn, format="csr")
        x = h.vec("x", len(sol.x1n))
        y = h.vec("y", len(sol.y1n))
        R = sol.R_x1(x, y)
        sx = sol.split_x1
        qn1, un12 = x[:sx[0]], x[sx[0]:sx[1]]
        Pg = x[sx[2]:sx[3]]
        tn1 = tn + dt
        h.eq("constraint rows = g(t_{n+1}, q_{n+1})", R[sx[2]:sx[3]], np.atleast_1d(sysm.g(tn1, qn1)))
        h.eq("kinematic rows: symmetric midpoint rule", R[:sx[0]], qn1 - qn - 0.5 * dt * (sysm.q_dot(tn, qn, un12) + sysm.q_dot(tn1, qn1, un12)))
        M = np.asarray(sysm.M(tn, qn).toarray())
        W = np.asarray(sysm.W_g(tn, qn).toarray())
        h.eq("momentum rows (stage 1) = M (u_{n+1/2} - u_n) - dt/2 h - W_g P_g", R[sx[0]:sx[1]], M @ (un12 - un) - 0.5 * dt * sysm.h(tn, qn, un12) - W @ Pg)


def rattle_stage2(h, which="distance", seed=0):
    """one real Rattle.solve() step from an arbitrary state with stage 1 replaced by an arbitrary result (fsolve contract, C22): the velocity stage's
    linear system is the momentum balance and the velocity-level constraint at (t_{n+1}, q_{n+1}), for a constraint to a MOVING anchor"""
    from cardillo.solver import Rattle, SolverOptions
    sysm, b, j = build(h, which, seed, moving=True)
    dtc = 0.125
    with h.capture():
        sol = Rattle(sysm, dtc, dtc, options=SolverOptions(reuse_lu_decomposition=False, continue_with_unconverged=True, fixed_point_max_iter=1))
    tn, qn, un = _state(h, sysm, b)
    sol.tn, sol.qn, sol.un = tn, qn, un
    x1 = h.vec("x1", len(sol.x1n))
    if sysm.nq == 7:
        h.assume(x1[3:7] @ x1[3:7] > 0, "stage-1 quaternion nonzero")
    y1 = np.array(sol.y1n, dtype=float)
    sol.I_N = np.zeros(sysm.nla_N, dtype=bool)       # (stage 1 leaves its active set here; no contacts)
    sol._iterative_projection_method = lambda x0, y0, lu=None: (x1.copy(), y1.copy(), 0)
    if h.sym:
        from symx import shims
        sysm._M0 = shims.SymMat(np.asarray(sysm._M0.toarray(), dtype=object))
    with h.capture():
        out = sol.solve()
    nu, ng = sysm.nu, sysm.nla_g
    sx = sol.split_x1
    qn1, un12 = x1[:sx[0]], x1[sx[0]:sx[1]]
    tn1 = tn + dtc
    h.eq("stored time is t_n + dt", out.t[-1], tn1)
    if h.sym:
        rec = h.lu_log()[-1]
        A, bb, x = rec["A"], rec["b"], rec["x"]
        res = A @ x - bb
        un1, Pg2 = -x[:nu], -x[nu:nu + ng]
        h.eq("stored velocity is the velocity stage's solution", out.u[-1], un1)
        h.eq("constraint rows of the velocity stage = -g_dot(t_{n+1}, q_{n+1}, u_{n+1})", res[nu:nu + ng], -np.atleast_1d(sysm.g_dot(tn1, qn1, un1)))
        M = np.asarray(sysm.M(tn1, qn1).toarray())
        W = np.asarray(sysm.W_g(tn1, qn1).toarray())
        h.eq("momentum rows (stage 2) = -(M (u_{n+1} - u_{n+1/2}) - dt/2 h - W_g P_g2)", res[:nu],
             -(M @ (un1 - un12) - 0.5 * dtc * sysm.h(tn1, qn1, un12) - W @ Pg2))
    else:
        h.eq("constraint rows of the velocity stage = -g_dot(t_{n+1}, q_{n+1}, u_{n+1})", np.atleast_1d(sysm.g_dot(tn1, qn1, out.u[-1])), np.zeros(ng), tol=1e-8)


def dsv_setup(h, sysm, tn, qn, un, dt):
    """real DualStormerVerlet object (LU variant) put into an arbitrary per-step state"""
    from cardillo.solver import DualStormerVerlet, SolverOptions
    with h.capture():
        sol = DualStormerVerlet(sysm, 1.0, 0.125, linear_solver="LU", accelerated=False, options=SolverOptions())
    sol.dt, sol.tn, sol.qn, sol.un = dt, tn, qn, un
    sol.Pin = h.vec("Pin", sol.nla)
    sol.Pi_Nn, sol.Pi_Fn = h.vec("PiN", sol.nla_N), h.vec("PiF", sol.nla_F)
    for nm in ("sol_t", "sol_q", "sol_u", "sol_la_c", "sol_P_g", "sol_P_gamma", "sol_P_N", "sol_P_F"):
        setattr(sol, nm, [])
    return sol


def dsv_run_step(h, sol, midpoint_by_evaluation=False, hypothesis="full"):
    """runs the real _step with the two fixed-point helpers replaced by their contract (C22): the midpoint iteration returns the exact midpoint
    (q_dot does not depend on q for point masses), the Newton-like iteration returns an ARBITRARY vector z with the hypothesis fun(z) = z"""
    import cardillo.solver.dual_stormer_verlet as dsv
    calls = []
    info = {}

    def fpi(fun, x0, atol=1e-6, rtol=1e-6, max_iter=100, verbose=False):
        k = len(calls)
        calls.append(k)
        if k == 0:
            if not h.sym:
                r0 = real[0](fun, x0, atol=atol, rtol=rtol, max_iter=max_iter)
                info["qm"] = r0[0]
                return r0
            if len(x0) % 7 != 0 or midpoint_by_evaluation:
                info["qm"] = fun(x0.copy())        # q_dot does not depend on q (point masses; no spin): one evaluation is the exact midpoint
                return info["qm"], 1, 0.0
            qm = h.vec("qm", len(x0))              # rigid bodies: ARBITRARY midpoint with the hypothesis qm = qn + dt/2 q_dot(tm, qm, un)
            for b0 in range(0, len(x0), 7):
                h.assume(qm[b0 + 3:b0 + 7] @ qm[b0 + 3:b0 + 7] > 0, "midpoint quaternion nonzero")
            out = fun(qm.copy())
            for i in range(len(qm)):
                h.assume_eq(out[i], qm[i], "fixed point of the midpoint iteration")
            info["qm"] = qm
            return qm, 1, 0.0
        if hypothesis == "percussions":
            # hypothesis only on the contact percussions (last nla_N + nla_F entries): P = projection(P) for the velocity iterate carried by z;
            # identical in the symbolic run and in the float replay (one evaluation of the real closure at z)
            z = h.vec("z", len(x0))
            out = fun(z.copy())
            nx = sol.nu + sol.nla
            for i in range(nx, len(z)):
                h.assume_eq(out[i], z[i], "percussions are a fixed point of the projection")
            return z, 1, 0.0
        if not h.sym:
            # replay / cross-check: the real helper iterates to an actual fixed point; a solver model carries the fixed point z it found,
            # the iteration is then started there (and stops at once if z is one)
            start = np.array([float(h.model[f"z{i}"]) if not isinstance(h.model[f"z{i}"], str) else float(__import__("fractions").Fraction(h.model[f"z{i}"]))
                              for i in range(len(x0))]) if all(f"z{i}" in h.model for i in range(len(x0))) else x0
            return real[0](fun, start, atol=atol, rtol=rtol, max_iter=max_iter)
        z = h.vec("z", len(x0))
        out = fun(z.copy())
        for i in range(len(z)):
            h.assume_eq(out[i], z[i], "fixed point of the step's iteration")
        return z, 1, 0.0
    real = (dsv.fixed_point_iteration, dsv.fixed_point_iteration_with_momentum)
    dsv.fixed_point_iteration = dsv.fixed_point_iteration_with_momentum = fpi
    try:
        with h.capture():
            sol._step()
    finally:
        dsv.fixed_point_iteration, dsv.fixed_point_iteration_with_momentum = real
    return info


def dsv_step(h, which="distance", seed=0):
    """DualStormerVerlet: at a fixed point of the step's iteration the stored configuration satisfies the position-level constraint (moving anchor)"""
    sysm, b, j = build(h, which, seed, moving=True)
    tn, qn, un = _state(h, sysm, b)
    dt = h.pos("dt")
    sol = dsv_setup(h, sysm, tn, qn, un, dt)
    if h.sym:
        from symx import shims
        sol.M = shims.SymMat(np.asarray(sol.M.toarray(), dtype=object))
    info = dsv_run_step(h, sol)
    tn1 = tn + dt
    h.eq("stored time is t_n + dt", sol.sol_t[-1], tn1)
    q1, u1, Pg = sol.sol_q[-1], sol.sol_u[-1], sol.sol_P_g[-1]
    nu, ng = sysm.nu, sysm.nla_g
    tm, qm = tn + 0.5 * dt, info["qm"]
    h.eq("midpoint configuration: q_m = q_n + dt/2 q_dot(t_m, q_m, u_n)", qm, qn + 0.5 * dt * sysm.q_dot(tm, qm, un), tol=(None if h.sym else 1e-5))
    h.eq("stored configuration: q_{n+1} = q_m + dt/2 u_{n+1}", q1, qm + 0.5 * dt * u1)
    M = np.asarray(sysm.M(tm, qm).toarray())
    W = np.asarray(sysm.W_g(tm, qm).toarray())
    bal = M @ (u1 - un) - 0.5 * dt * (sysm.h(tm, qm, un) + sysm.h(tm, qm, u1)) - W @ Pg
    if h.sym:
        # rows of the last linear system of the step at the fixed point (Newton update = 0): A x - b is identically the residual
        rec = h.lu_log()[-1]
        res = rec["A"] @ rec["x"] - rec["b"]
        h.eq("constraint rows of the step's linear system at its fixed point = (2/dt) g(t_{n+1}, q_{n+1})", res[nu:nu + ng],
             (2 / dt) * np.atleast_1d(sysm.g(tn1, q1)))
        h.eq("momentum rows of the step's linear system at its fixed point = momentum balance with the stored percussion", res[:nu], bal)
    else:
        scale = 1e-4 * max(1.0, float(np.max(np.abs(q1))))
        h.eq("constraint rows of the step's linear system at its fixed point = (2/dt) g(t_{n+1}, q_{n+1})", np.atleast_1d(sysm.g(tn1, q1)), np.zeros(ng), tol=scale)
        h.eq("momentum rows of the step's linear system at its fixed point = momentum balance with the stored percussion", bal, np.zeros(nu), tol=scale)


def scipy_forwarding(h, solver="ScipyDAE", seed=0):
    """the wrappers hand the requested tolerances, output grid, initial state and residual / right-hand side to the third-party integrator
    (whose accuracy contract - constraints at the order of the requested tolerance - is the trusted part)"""
    import importlib
    sysm, b, j = build(h, "distance", seed)
    mod = importlib.import_module("cardillo.solver." + ("scipy_dae" if solver == "ScipyDAE" else "scipy_ivp"))
    rtol, atol = h.pos("rtol"), h.pos("atol")
    seen = {}

    class _Stop(Exception):
        pass

    def integrator(fun, t_span, y0, *a, **kw):
        seen.update(kw, fun=fun, t_span=t_span, y0=y0, extra=a)
        raise _Stop()
    name = "solve_dae" if solver == "ScipyDAE" else "solve_ivp"
    real = getattr(mod, name)
    setattr(mod, name, integrator)
    try:
        with h.capture():
            S = getattr(mod, solver)(sysm, 0.5, 0.125, rtol=rtol, atol=atol)
            try:
                S.solve()
            except _Stop:
                pass
    finally:
        setattr(mod, name, real)
    h.holds(f"{solver}: the integrator is called", bool(seen))
    if not seen:
        return
    h.holds(f"{solver}: requested absolute tolerance forwarded", seen.get("atol") is atol)
    h.holds(f"{solver}: requested relative tolerance forwarded", seen.get("rtol") is rtol)
    te = np.asarray(seen.get("t_eval"), dtype=float)
    h.holds(f"{solver}: output grid forwarded", te.shape == np.asarray(S.t_eval).shape and bool(np.all(te == np.asarray(S.t_eval, dtype=float))))
    h.holds(f"{solver}: integration span = first and last output time", float(seen["t_span"][0]) == float(S.t_eval[0]) and float(seen["t_span"][-1]) == float(S.t_eval[-1]))
    y0 = np.asarray(seen["y0"], dtype=float)
    h.holds(f"{solver}: initial state = (q0, u0, ...)", bool(np.all(y0[:sysm.nq] == np.asarray(sysm.q0, dtype=float)) and np.all(y0[sysm.nq:sysm.nq + sysm.nu] == np.asarray(sysm.u0, dtype=float))))


def initial_normalisation(h, consistent=False, seed=0):
    """stored step 0: the assembled initial state carries unit quaternions also when the initial-condition solve is switched off"""
    from cardillo import System
    from cardillo.discrete import RigidBody
    from cardillo.forces import Force
    from cardillo.solver import SolverOptions
    P = h.quat("P0")
    b = RigidBody(1.5, np.diag([1.0, 2.0, 3.0]), q0=np.concatenate([h.vec("r0", 3), P]), u0=np.zeros(6), name="b")
    sysm = System()
    sysm.add(b, Force(np.array([0.0, 0.0, -1.0]), b))
    if h.sym:
        from symx import shims
        shims.LU_MODE[0] = "cramer"
    with h.capture():
        sysm.assemble(options=SolverOptions(compute_consistent_initial_conditions=consistent))
    h.eq("assembled initial state has a unit quaternion", sysm.g_S(sysm.t0, sysm.q0), np.zeros(sysm.nla_S))
    n2 = P @ P
    Pn = sysm.q0[3:7]
    h.eq("assembled initial quaternion is the given one, normalised", Pn * Pn * n2, P * P)


def callback(h, which="revolute", seed=0):
    sysm, b, j = build(h, which, seed)
    t, q, u = _state(h, sysm, b)
    g0, gd0 = np.atleast_1d(sysm.g(t, q)), np.atleast_1d(sysm.g_dot(t, q, u))
    with h.capture():
        q1, u1 = sysm.step_callback(t, q.copy(), u.copy())
    h.eq("stored quaternions have unit length", sysm.g_S(t, q1), np.zeros(sysm.nla_S))
    h.eq("g unchanged by step_callback", np.atleast_1d(sysm.g(t, q1)), g0)
    h.eq("g_dot unchanged by step_callback", np.atleast_1d(sysm.g_dot(t, q1, u1)), gd0)


def scipy_ivp(h, seed=0, forces=False):
    from cardillo.solver import ScipyIVP
    if h.sym:
        from symx import shims
        shims.LU_MODE[0] = "cramer"
    if forces:
        # rigid body on a revolute joint with a motor (W_tau la_tau), a compliance-form rotational spring (W_c la_c) and an external force;
        # concrete (exact rational) configuration, symbolic velocity / motor torque / stiffness / force
        from cardillo.forces import Force
        from cardillo.force_laws import Spring
        from cardillo.actuators import Motor

        def extra(rp):
            els = [Force(h.vec("F", 3), rp.b, B_r_CP=np.array([0.25, 0.0, 0.125])), Motor(rp.joint, h.real("tau")),
                   Spring(rp.joint, h.pos("kc"), l_ref=-0.25, compliance_form=True, name="s_compl")]
            els[1].name = "motor"
            return els
        rp = lib.RevolutePair(h, seed=seed, axis=2, first="F", extra=extra)
        sysm, b, j = lib.assemble(rp.sysm), rp.b, rp.joint
    else:
        sysm, b, j = build(h, "distance", seed)
    with h.capture():
        sol = ScipyIVP(sysm, 1.0, 0.1)
    t, q, u = _state(h, sysm, b)
    if forces:
        q = np.array(sysm.q0, dtype=float)
    if h.sym:
        from symx import shims
        sysm._M0 = shims.SymMat(np.asarray(sysm._M0.toarray(), dtype=object))
        import cardillo.solver.scipy_ivp as siv
        siv.spsolve = shims.spsolve
        siv.csc_array = shims.SymMat.make
    with h.capture():
        ud, la_g, la_gamma, la_c = sol.la_g_la_gamma_la_c(t, q, u)
    M = np.asarray(sysm.M(t, q).toarray())
    W = np.asarray(sysm.W_g(t, q).toarray())
    rhs = sysm.h(t, q, u) + W @ la_g
    if forces:
        rhs = rhs + np.asarray(sysm.W_tau(t, q).toarray()) @ sysm.la_tau(t, q, u) + np.asarray(sysm.W_c(t, q).toarray()) @ la_c
        h.eq("reported la_c is the compliance force", sysm.c(t, q, u, la_c), np.zeros(sysm.nla_c))
    h.eq("reported accelerations satisfy the equations of motion", M @ ud, rhs)
    h.eq("reported accelerations satisfy the acceleration-level constraints", np.atleast_1d(sysm.g_ddot(t, q, u, ud)), np.zeros(sysm.nla_g))


def cases(tier, seed):
    T = 120 if tier == "quick" else 600
    cs = []
    for which in ("revolute", "spherical", "distance"):
        cs.append(Case(f"moreau_step/{which}", moreau_step, dict(which=which, seed=seed), timeout=T, hard=T * 8))
        # rheonomic anchor (accelerating frame): the explicitly time-dependent part of g_dot must be taken at the midpoint time as well
        cs.append(Case(f"moreau_step/{which}/moving", moreau_step, dict(which=which, seed=seed, moving=True), timeout=T, hard=T * 8))
        for solver in ("BackwardEuler", "Rattle"):
            cs.append(Case(f"rows/{solver}/{which}", residual_rows, dict(solver=solver, which=which, seed=seed), timeout=T, hard=T * 8))
        if which != "distance":
            cs.append(Case(f"step_callback/{which}", callback, dict(which=which, seed=seed), timeout=T))
    for which in (("distance",) if tier == "quick" else ("distance", "spherical")):
        cs.append(Case(f"rattle_stage2/{which}", rattle_stage2, dict(which=which, seed=seed), timeout=T, hard=T * 8, max_paths=16))
    cs.append(Case("dual_stormer_verlet_step/distance", dsv_step, dict(which="distance", seed=seed), timeout=T, hard=T * 8, max_paths=16))
    for solver in ("ScipyDAE", "ScipyIVP"):
        cs.append(Case(f"forwarding/{solver}", scipy_forwarding, dict(solver=solver, seed=seed), timeout=T, sentinel=False, crosscheck=False))
    for consistent in (False, True):
        cs.append(Case(f"initial_normalisation/consistent_ic={consistent}", initial_normalisation, dict(consistent=consistent, seed=seed), timeout=T, sentinel=False))
    cs.append(Case("scipy_ivp/distance", scipy_ivp, dict(seed=seed), timeout=T))
    cs.append(Case("scipy_ivp/revolute+actuator+compliance", scipy_ivp, dict(seed=seed, forces=True), timeout=T, hard=T * 8))
    return cs
