"""Stubs for the C-implemented environment of cardillo (scipy.sparse, SuperLU, array.array,
warnings, tqdm, cachetools.LRUCache) and the loader that rebinds them in the loaded cardillo modules.
Nothing in /repo is edited: only module globals of the already imported modules are rebound, in
the (forked) process that runs a symbolic case."""
import array as _array
import sys
import types
import warnings as _warnings

import numpy as _np
import scipy.sparse as _sp
import scipy.sparse.linalg as _spl
from scipy.sparse import sparray as _sparray

from . import core, symnp
from .core import S, CTX


# ----------------------------------------------------------------------------- sparse
class SymMat(_sparray):
    """dense object matrix posing as a scipy sparse array.
    COO -> dense law: A[i, j] = sum_k [row_k = i and col_k = j] data_k (duplicates summed)."""

    def __init__(s, a):
        s.a = _np.asarray(a, dtype=object)
        if s.a.ndim == 1:
            s.a = s.a.reshape(1, -1)

    @property
    def shape(s):
        return s.a.shape

    @property
    def ndim(s):
        return 2

    @property
    def dtype(s):
        return _np.dtype(object)

    @staticmethod
    def make(arg, shape=None, copy=False, dtype=None, **kw):
        if isinstance(arg, SymMat):
            return SymMat(arg.a.copy())
        if isinstance(arg, _sparray) or _sp.issparse(arg):
            return SymMat(arg.toarray().astype(object))
        if isinstance(arg, tuple) and len(arg) == 2 and isinstance(arg[1], tuple):
            data, (row, col) = arg
            if shape is None:
                raise ValueError("shape required")
            a = _np.empty(shape, dtype=object)
            a.fill(0.0)
            data = list(data)
            row = list(row)
            col = list(col)
            if not (len(data) == len(row) == len(col)):
                raise ValueError("row, column, and data array must all be the same length")
            for d, i, j in zip(data, row, col):
                i, j = int(i), int(j)
                if not (0 <= i < shape[0] and 0 <= j < shape[1]):
                    raise ValueError("index exceeds matrix dimensions")
                a[i, j] = a[i, j] + d
            return SymMat(a)
        if isinstance(arg, tuple) and len(arg) == 2 and all(isinstance(x, (int, _np.integer)) for x in arg):
            a = _np.empty(arg, dtype=object)
            a.fill(0.0)
            return SymMat(a)
        return SymMat(_np.atleast_2d(_np.asarray(arg, dtype=object)))

    @property
    def T(s):
        return SymMat(s.a.T)

    def transpose(s):
        return s.T

    def __matmul__(s, o):
        if isinstance(o, SymMat):
            return SymMat(s.a @ o.a)
        if _sp.issparse(o):
            return SymMat(s.a @ o.toarray().astype(object))
        return s.a @ _np.asarray(o, dtype=object)

    def __rmatmul__(s, o):
        if _sp.issparse(o):
            return SymMat(o.toarray().astype(object) @ s.a)
        return _np.asarray(o, dtype=object) @ s.a

    def dot(s, o):
        return s @ o

    def _arr(s, o):
        if isinstance(o, SymMat):
            return o.a
        if _sp.issparse(o):
            return o.toarray().astype(object)
        return o

    def __neg__(s):
        return SymMat(-s.a)

    def __add__(s, o):
        return SymMat(s.a + s._arr(o))

    __radd__ = __add__

    def __sub__(s, o):
        return SymMat(s.a - s._arr(o))

    def __rsub__(s, o):
        return SymMat(s._arr(o) - s.a)

    def __mul__(s, o):
        return SymMat(s.a * s._arr(o))

    __rmul__ = __mul__

    def multiply(s, o):
        return SymMat(s.a * s._arr(o))

    def __truediv__(s, o):
        return SymMat(s.a / o)

    def __getitem__(s, k):
        r = s.a[k]
        return SymMat(r) if getattr(r, "ndim", 0) == 2 else r

    def __setitem__(s, k, v):
        s.a[k] = s._arr(v)

    def toarray(s, *a, **k):
        return s.a

    todense = toarray

    def _coo(s):
        rows, cols, data = [], [], []
        for i in range(s.a.shape[0]):
            for j in range(s.a.shape[1]):
                e = s.a[i, j]
                if isinstance(e, S) or e != 0:
                    rows.append(i)
                    cols.append(j)
                    data.append(e)
        return _np.array(data, dtype=object), _np.array(rows, dtype=int), _np.array(cols, dtype=int)

    @property
    def data(s):
        return s._coo()[0]

    @property
    def row(s):
        return s._coo()[1]

    @property
    def col(s):
        return s._coo()[2]

    def tocoo(s, *a, **k):
        return s

    tocsc = tocsr = tolil = tocoo

    def asformat(s, *a, **k):
        return s

    def copy(s):
        return SymMat(s.a.copy())

    def diagonal(s):
        return _np.diag(s.a)

    def reshape(s, *sh):
        return SymMat(s.a.reshape(*sh))

    def sum(s, axis=None):
        return s.a.sum(axis=axis)

    @property
    def nnz(s):
        return len(s._coo()[0])


def _shape_of(b):
    return b.shape if hasattr(b, "shape") else _np.shape(b)


def bmat(blocks, format=None, dtype=None):
    blocks = [list(r) for r in blocks]
    nr, nc = len(blocks), len(blocks[0])
    rs, cs = [None] * nr, [None] * nc
    for i in range(nr):
        for j in range(nc):
            b = blocks[i][j]
            if b is None:
                continue
            sh = _shape_of(b)
            if len(sh) == 1:
                sh = (1, sh[0])
            if rs[i] is not None and rs[i] != sh[0]:
                raise ValueError("blocks[%d,:] has incompatible row dimensions" % i)
            if cs[j] is not None and cs[j] != sh[1]:
                raise ValueError("blocks[:,%d] has incompatible column dimensions" % j)
            rs[i], cs[j] = sh[0], sh[1]
    if any(r is None for r in rs) or any(c is None for c in cs):
        raise ValueError("blocks must contain a non-None entry in every row and column")
    a = _np.empty((sum(rs), sum(cs)), dtype=object)
    a.fill(0.0)
    r0 = 0
    for i in range(nr):
        c0 = 0
        for j in range(nc):
            b = blocks[i][j]
            if b is not None:
                if isinstance(b, SymMat):
                    bb = b.a
                elif _sp.issparse(b):
                    bb = b.toarray().astype(object)
                else:
                    bb = _np.atleast_2d(_np.asarray(b, dtype=object))
                a[r0:r0 + rs[i], c0:c0 + cs[j]] = bb
            c0 += cs[j]
        r0 += rs[i]
    return SymMat(a)


def block_diag(mats, format=None, dtype=None):
    n = len(mats)
    return bmat([[mats[i] if i == j else None for j in range(n)] for i in range(n)])


def sp_eye(m, n=None, k=0, dtype=float, format=None):
    return SymMat(_np.eye(m, n, k).astype(object))


def sp_diags(diagonals, offsets=0, shape=None, format=None, dtype=None):
    d = _np.asarray(diagonals, dtype=object)
    if d.ndim == 1 and offsets == 0:
        n = len(d)
        a = _np.empty((n, n), dtype=object)
        a.fill(0.0)
        for i in range(n):
            a[i, i] = d[i]
        return SymMat(a)
    raise NotImplementedError("diags with offsets")


def lil_array(arg, dtype=None, **kw):
    return SymMat.make(arg)


# ----------------------------------------------------------------------------- LU contract
LU_MODE = ["fresh"]   # "fresh": LU contract with fresh symbols; "cramer": exact inverse (n <= 4)


class SymLU:
    """LU contract: solve(b) returns fresh symbols x and records (A, b, x); the claim that uses it
    states 'x solves A x = b' as its single trusted implication."""

    def __init__(s, A):
        s.A = A.a if isinstance(A, SymMat) else (_np.asarray(A.toarray() if _sp.issparse(A) else A, dtype=object))

    def solve(s, b, trans="N"):
        b = _np.asarray(b, dtype=object)
        A = s.A.T if trans == "T" else s.A
        if LU_MODE[0] == "cramer":
            return symnp._inv(A) @ b
        n = len(CTX.lu_log) + 1
        if b.ndim == 1:
            x = _np.array([core.var(f"lu{n}_{i}", kind="lu") for i in range(A.shape[1])], dtype=object)
        else:
            x = _np.array([[core.var(f"lu{n}_{i}_{j}", kind="lu") for j in range(b.shape[1])] for i in range(A.shape[1])], dtype=object)
        CTX.lu_log.append(dict(A=A, b=b, x=x))
        return x


def splu(A, *a, **k):
    return SymLU(A)


def spsolve(A, b, *a, **k):
    return SymLU(A).solve(b.a if isinstance(b, SymMat) else b)


# ----------------------------------------------------------------------------- misc
class SymList(list):
    def extend(s, it):
        if isinstance(it, _np.ndarray):
            list.extend(s, list(it.ravel()))
        else:
            list.extend(s, list(it))

    def tolist(s):
        return list(s)


def array_shim(code, init=()):
    return SymList(init)


class WarningsShim(types.ModuleType):
    def __init__(self):
        super().__init__("warnings_shim")

    def warn(self, message, category=None, stacklevel=1, **k):
        CTX.events.append(("warn", str(message), getattr(category, "__name__", None) if category else type(message).__name__ if isinstance(message, Warning) else "UserWarning"))

    def __getattr__(self, k):
        return getattr(_warnings, k)


WARN = WarningsShim()


def warn_shim(message, category=None, stacklevel=1, **k):
    WARN.warn(message, category)


def print_shim(*a, **k):
    CTX.events.append(("print", " ".join(str(x) for x in a)))


class _Tqdm:
    def __init__(self, it=None, *a, **k):
        self.it = it

    def __iter__(self):
        for x in self.it:
            CTX.events.append(("tick",))
            yield x

    def set_description(self, *a, **k):
        pass

    def update(self, *a, **k):
        pass

    def close(self):
        pass


def tqdm_shim(it=None, *a, **k):
    return _Tqdm(it)


CACHES = []


def _make_lru():
    import cachetools

    class RegLRU(cachetools.LRUCache):
        def __init__(self, *a, **k):
            super().__init__(*a, **k)
            CACHES.append(self)
    return RegLRU


def clear_caches():
    for c in CACHES:
        c.clear()


def find_and_clear_caches(*objs):
    """clear every cachetools cache reachable as an attribute of the given objects"""
    import cachetools
    for o in objs:
        for v in list(vars(o).values()) if hasattr(o, "__dict__") else []:
            if isinstance(v, cachetools.Cache):
                v.clear()


# ----------------------------------------------------------------------------- loader
def replacement_table():
    import scipy.optimize
    import tqdm as _tq
    tab = {}

    def put(orig, new):
        tab[id(orig)] = (orig, new)
    put(_np, symnp.np)
    for k, f in symnp._EXPORT.items():
        o = getattr(_np, k, None)
        if o is not None and callable(o):
            put(o, f)
    put(_np.linalg.norm, symnp._norm)
    put(_np.linalg.inv, symnp._inv)
    put(_np.linalg.det, symnp._det)
    put(_np.linalg.solve, symnp._solve)
    for n in ("coo_array", "csc_array", "csr_array", "coo_matrix", "csc_matrix", "csr_matrix"):
        put(getattr(_sp, n), SymMat.make)
    put(_sp.bmat, bmat)
    if hasattr(_sp, "block_array"):
        put(_sp.block_array, bmat)
    put(_sp.block_diag, block_diag)
    put(_sp.eye, sp_eye)
    if hasattr(_sp, "eye_array"):
        put(_sp.eye_array, sp_eye)
    put(_sp.diags, sp_diags)
    if hasattr(_sp, "diags_array"):
        put(_sp.diags_array, sp_diags)
    put(_sp.lil_array, lil_array)
    put(_sp.lil_matrix, lil_array)
    put(_spl.splu, splu)
    put(_spl.spsolve, spsolve)
    put(_array.array, array_shim)
    put(_warnings, WARN)
    put(_warnings.warn, warn_shim)
    put(_tq.tqdm, tqdm_shim)
    import cachetools
    put(cachetools.LRUCache, _make_lru())
    return tab


_PATCHED = False
# modules that only do concrete float work on C-computed data (complex -> float assignments etc.) and receive
# symbolic values, if at all, through plain arithmetic on their results
UNPATCHED = {"cardillo.rods.discretization.gauss"}


def patch_cardillo(silence_print=True):
    """rebind numpy/scipy/... names in the globals of every loaded cardillo module"""
    global _PATCHED
    import cardillo  # noqa: F401
    # import everything so that late imports do not bring unpatched modules
    import cardillo.solver, cardillo.rods, cardillo.contacts, cardillo.constraints  # noqa: F401,E401
    import cardillo.force_laws, cardillo.forces, cardillo.actuators, cardillo.interactions  # noqa: F401,E401
    import cardillo.discrete, cardillo.math, cardillo.utility.coo_matrix  # noqa: F401,E401
    try:
        import cardillo.rods.cosseratRod, cardillo.rods.force_line_distributed  # noqa: F401,E401
    except Exception:
        pass
    tab = replacement_table()
    for name, mod in list(sys.modules.items()):
        if mod is None or not (name == "cardillo" or name.startswith("cardillo.")):
            continue
        if name in UNPATCHED:
            continue
        for k, v in list(vars(mod).items()):
            ent = tab.get(id(v))
            if ent is not None and ent[0] is v:
                setattr(mod, k, ent[1])
        if silence_print:
            mod.__dict__["print"] = print_shim
    # module-level float constants that are arrays stay float64 (e.g. rotations.eye3): fine, they
    # are only read.  SolverOptions default linear solver:
    try:
        import cardillo.solver.solver_options as so
        so.SolverOptions.__dataclass_fields__  # noqa
    except Exception:
        pass
    _PATCHED = True
