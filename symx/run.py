"""Case runner: symbolic execution of cases in forked workers, solver discharge per obligation,
pinned-input refutation search, float replay of every model on the unshimmed code, evidence."""
import hashlib
import json
import multiprocessing as mp
import os
import random
import re
import sys
import time
import traceback
from fractions import Fraction

import z3

ROOT = os.path.dirname(os.path.dirname(os.path.abspath(__file__)))
NPROC = int(os.environ.get("VERIF_NPROC", "16"))
# budgets: VERIF_TIMEOUT_SCALE scales every per-obligation / per-case budget (e.g. 0.05 for a structural dry run of the thorough tier);
# VERIF_HARD_CAP bounds the wall clock of a single case (seconds).  Exhausted budgets end as 'inconclusive', never as a pass.
TIMEOUT_SCALE = float(os.environ.get("VERIF_TIMEOUT_SCALE", "1"))
HARD_CAP = float(os.environ.get("VERIF_HARD_CAP", "3600"))


class Case:
    def __init__(self, id, fn, params=None, timeout=30, hard=None, max_paths=64, max_depth=64,
                 expect_paths=None, pin_tries=4, replay=True, sentinel=True, kind="identity", patch=True, crosscheck=True):
        self.id, self.fn, self.params = id, fn, params or {}
        self.timeout = max(1, timeout * TIMEOUT_SCALE)            # per obligation, seconds
        self.hard = min(HARD_CAP, max(60, (hard or max(120, timeout * 12)) * TIMEOUT_SCALE))     # wall clock budget of the whole case
        self.max_paths, self.max_depth = max_paths, max_depth
        self.pin_tries = pin_tries
        self.replay = replay
        self.sentinel = sentinel
        self.kind = kind
        self.patch = patch            # False: the code under test runs unshimmed (concrete floats); only symbolic booleans fork
        self.crosscheck = crosscheck


# ----------------------------------------------------------------------------- model helpers
def _val_str(v):
    if v is None:
        return None
    if z3.is_true(v):
        return "True"
    if z3.is_false(v):
        return "False"
    if z3.is_rational_value(v):
        return f"{v.numerator_as_long()}/{v.denominator_as_long()}"
    if z3.is_algebraic_value(v):
        a = v.approx(20)
        return f"{a.numerator_as_long()}/{a.denominator_as_long()}"
    try:
        return str(Fraction(str(v)))
    except Exception:
        return None


def model_dict(model, ctx):
    out = {}
    for name, sym in ctx.inputs.items():
        v = model.eval(sym, model_completion=True)
        s = _val_str(v)
        if s is not None:
            out[name] = s
    # angle inputs: the solver reasons about the Weierstrass symbol w = tan(a/2); the angle symbol itself is only loosely tied to it (range
    # assumptions).  For the float replay the angle is made consistent with w: a = 2 atan(w) + 2 pi k, k chosen nearest to the model's own value.
    import math
    by_id = {sym.get_id(): name for name, sym in ctx.inputs.items() if not z3.is_bool(sym)}
    for ent in getattr(ctx, "atom_list", []):
        try:
            kind, w, arg = ent
            if kind != "w" or arg.e or not z3.is_expr(arg.n) or arg.n.get_id() not in by_id:
                continue
            name = by_id[arg.n.get_id()]
            wv = model.eval(w, model_completion=True)
            ws = _val_str(wv)
            if ws is None or name not in out:
                continue
            a_old = float(Fraction(out[name]))
            a_new = 2.0 * math.atan(float(Fraction(ws)))
            a_new += 2.0 * math.pi * round((a_old - a_new) / (2.0 * math.pi))
            out[name] = str(Fraction(a_new))
        except Exception:
            continue
    return out


from .core import pinned_queries  # noqa: E402


# ----------------------------------------------------------------------------- symbolic worker
def _discharge(ctx, h, case, deadline, rng, out_paths, path_id, emit):
    from . import core
    facts = ctx.facts()
    t0 = time.time()
    # reachability twin: pinned inputs first (nlsat is slow at finding models with many atoms), then the free query
    tw = "unknown"
    for pins in pinned_queries(ctx, rng, 12):
        r, m = core.check_sat(facts + pins, 3000)
        if r == "sat":
            tw = "sat"
            break
    if tw != "sat":
        tw, tm = core.check_sat(facts, min(case.timeout, 20) * 1000)
    prec = dict(path=path_id, twin=tw, notes=[(str(n)[:100], bool(d)) for n, d in ctx.path_notes],
                n_obl=len(h.obls), exc=None)
    results = []
    snap_twin = {}

    def facts_of(o):
        na, nx, npth, nd = o.snap
        return list(ctx.assumes[:na]) + list(ctx.axioms[:nx]) + list(ctx.path[:npth]) + [d != 0 for d in ctx.dens[:nd]]

    def snap_ok(o):
        """when the final context is infeasible (e.g. a denominator registered later vanishes on this path),
        an obligation still counts if the context in force when it was stated is satisfiable"""
        if o.snap not in snap_twin:
            r, _ = core.check_sat(facts_of(o), min(case.timeout, 20) * 1000)
            if r != "sat":
                for pins in pinned_queries(ctx, rng, 4):
                    r, _ = core.check_sat(facts_of(o) + pins, 5000)
                    if r == "sat":
                        break
            snap_twin[o.snap] = r
        return snap_twin[o.snap] == "sat"
    final_infeasible = (tw == "unsat")
    prec["final_infeasible"] = final_infeasible
    if final_infeasible:
        live = [o for o in h.obls if snap_ok(o)]
        prec["n_obl_live"] = len(live)
        if not live:
            prec["t"] = round(time.time() - t0, 2)
            emit(("path", prec))
            return
        prec["twin"] = tw = "sat"
        h.obls = live
    # sentinel
    sent = None
    if case.sentinel and h.sentinels and tw == "sat":
        # mutation sentinel: the claim with a 1 permille perturbed right-hand side must be refutable
        # (unless that right-hand side is identically zero)
        for (nm, k, claim, rhs_nz) in h.sentinels:
            r = "unknown"
            for pins in pinned_queries(ctx, rng, 3):
                r2, m2 = core.check_sat(facts + pins + [z3.Not(claim)], 5000)
                if r2 == "sat":
                    r = "sat"
                    break
            if r != "sat":
                r, m = core.check_sat(facts + [z3.Not(claim)], min(case.timeout, 20) * 1000)
            if r == "sat":
                sent = dict(name=nm, idx=k, result="sat")
                break
            if r == "unsat":
                rz, _ = core.check_sat(facts + [rhs_nz], min(case.timeout, 20) * 1000)
                if rz == "sat":
                    sent = dict(name=nm, idx=k, result="unsat")   # perturbed claim valid although rhs != 0: encoder problem
                    break
        if sent is None:
            sent = dict(name=None, idx=None, result="none (all candidate right-hand sides identically zero or undecided)")
    prec["sentinel"] = sent
    refuted_names = set()
    for o in h.obls:
        facts = facts_of(o)
        rec = dict(case=case.id, path=path_id, name=o.name, idx=o.idx, kind=o.kind, info=o.info)
        if o.trivial is True:
            rec.update(status="trivial", t=0.0)
        elif time.time() > deadline:
            rec.update(status="unknown", t=0.0, why="case budget exhausted")
        else:
            t1 = time.time()
            if o.trivial is False:
                # literally false claim: any state of the path (in the obligation's context) is a counterexample
                r, m = "unknown", None
                for pins in pinned_queries(ctx, rng, 6):
                    r2, m2 = core.check_sat(facts + pins, 5000)
                    if r2 == "sat":
                        r, m = "sat", m2
                        break
                if r != "sat":
                    r2, m2 = core.check_sat(facts, case.timeout * 1000)
                    if r2 == "sat":
                        r, m = "sat", m2
                    elif r2 == "unsat":
                        r = "infeasible"     # the context of the false claim is itself unsatisfiable: nothing claimed, nothing refuted
            else:
                # 1) cheap refutation attempt: all inputs pinned to random rationals (a violated identity is
                #    violated almost everywhere, and such a model is well conditioned for the float replay)
                r, m = "unknown", None
                for pins in pinned_queries(ctx, rng, min(2, case.pin_tries)):
                    r2, m2 = core.check_sat(facts + pins + [z3.Not(o.claim)], 10000)
                    if r2 == "sat":
                        r, m = "sat", m2
                        rec["pinned"] = True
                        break
                # 2) the universally quantified question (skipped when another entry of the same clause has
                #    already been refuted on this path: the clause is violated, the remaining entries add nothing)
                if r != "sat" and o.name in refuted_names:
                    rec["why"] = "clause already refuted at another entry; proof attempt skipped"
                elif r != "sat":
                    r, m = core.check_sat(facts + [z3.Not(o.claim)], case.timeout * 1000)
                if r == "sat":
                    refuted_names.add(o.name)
            rec.update(status=r, t=round(time.time() - t1, 3))
            if r == "unknown" and case.pin_tries > 2:
                for pins in pinned_queries(ctx, rng, case.pin_tries - 2):
                    r2, m2 = core.check_sat(facts + pins + [z3.Not(o.claim)], 10000)
                    if r2 == "sat":
                        rec["status"] = "sat"
                        rec["pinned"] = True
                        m = m2
                        break
            if rec["status"] == "sat" and m is not None:
                rec["model"] = model_dict(m, ctx)
            if len(results) < 3 and rec["status"] in ("unsat",):
                try:
                    rec["smt_sample"] = z3.Not(o.claim).sexpr()[:600]
                except Exception:
                    pass
        results.append(rec)
        emit(("obl", rec))
    prec["t"] = round(time.time() - t0, 2)
    emit(("path", prec))


def _sym_worker(case, conn, seed, trace_fns):
    """child process: shim cardillo, explore, discharge; stream results over conn"""
    try:
        from . import core, shims
        from .harness import SymH, Skip
        if case.patch:
            shims.patch_cardillo()
            _post_patch()
        rng = random.Random(int(hashlib.sha1(f'{seed}:{case.id}'.encode()).hexdigest()[:8], 16))
        core.CTX.reset_all()
        deadline = time.time() + case.hard * 0.9
        called = set()
        if trace_fns:
            _start_trace(called)
        hbox = {}

        def emit(x):
            conn.send(x)

        def runit():
            h = SymH(case.params)
            hbox["h"] = h
            try:
                case.fn(h, **case.params)
            except Skip as e:
                h.notes.append("skip: %s" % e)
                h.skipped = True
            return h

        pid = 0
        t_exec0 = time.time()
        for item in core.explore(runit, max_paths=case.max_paths, max_depth=case.max_depth):
            pid += 1
            if item["exc"] is not None:
                emit(("path", dict(path=pid, twin=None, exc="%s: %s" % (type(item["exc"]).__name__, str(item["exc"])[:300]),
                                   tb=item.get("tb", "")[-1500:], notes=[(str(n)[:100], bool(d)) for n, d in core.CTX.path_notes], n_obl=0)))
                continue
            h = item["result"]
            if item.get("partial"):
                h = hbox.get("h")
                if h is None or not h.obls:
                    pid -= 1
                    continue
            _discharge(core.CTX, h, case, deadline, rng, None, pid, emit)
            if time.time() > deadline:
                break
        st = getattr(core.explore, "last_stats", {})
        if trace_fns:
            _stop_trace()
        emit(("done", dict(stats=st, queries=core.CTX.queries, solver_s=round(core.CTX.solver_s, 2),
                           functions=sorted(called), wall=round(time.time() - t_exec0, 2))))
    except BaseException as e:  # noqa
        try:
            conn.send(("crash", "%s: %s\n%s" % (type(e).__name__, e, traceback.format_exc()[-2500:])))
        except Exception:
            pass
    finally:
        conn.close()
        os._exit(0)


def _post_patch():
    """SolverOptions keeps scipy's spsolve as a dataclass default: swap it for the LU stub"""
    try:
        import scipy.sparse.linalg as spl
        import cardillo.solver.solver_options as so
        from . import shims
        orig_post = so.SolverOptions.__post_init__

        def post(self):
            if self.linear_solver is spl.spsolve:
                self.linear_solver = shims.spsolve
            orig_post(self)
        so.SolverOptions.__post_init__ = post
    except Exception:
        pass


_TOOL = None


def _start_trace(called):
    global _TOOL
    mon = sys.monitoring
    _TOOL = mon.PROFILER_ID
    try:
        mon.use_tool_id(_TOOL, "symx")
    except ValueError:
        return

    def on_start(code, off):
        fn = code.co_filename
        if "/cardillo/" in fn:
            called.add(fn.split("/cardillo/", 1)[1].replace(".py", "").replace("/", ".") + ":" + code.co_qualname)
        return mon.DISABLE
    mon.register_callback(_TOOL, mon.events.PY_START, on_start)
    mon.set_events(_TOOL, mon.events.PY_START)


def _stop_trace():
    mon = sys.monitoring
    try:
        mon.set_events(_TOOL, 0)
        mon.free_tool_id(_TOOL)
    except Exception:
        pass


# ----------------------------------------------------------------------------- float replay worker
def _float_worker(case, model, conn, rand_seed=None):
    try:
        from .harness import FloatH, Skip
        import warnings
        import io
        import contextlib
        h = FloatH(model, case.params, rand=(random.Random(rand_seed) if rand_seed is not None else None))
        buf = io.StringIO()
        err = None
        with warnings.catch_warnings(record=True) as wl:
            warnings.simplefilter("always")
            with contextlib.redirect_stdout(buf):
                try:
                    case.fn(h, **case.params)
                except Skip:
                    pass
                except Exception as e:
                    err = "%s: %s\n%s" % (type(e).__name__, e, traceback.format_exc()[-1500:])
        res = [dict(name=r.name, idx=r.idx, ok=r.ok, lhs=r.lhs, rhs=r.rhs, info=r.info) for r in h.res]
        conn.send(dict(res=res, assumption_failed=h.assumption_failed, err=err, missing=h.missing[:20]))
    except BaseException as e:  # noqa
        conn.send(dict(res=[], err="%s: %s" % (type(e).__name__, e), assumption_failed=[]))
    finally:
        conn.close()
        os._exit(0)


def float_replay(case, model, timeout=300, rand_seed=None):
    ctx = mp.get_context("fork")
    a, b = ctx.Pipe(duplex=False)
    p = ctx.Process(target=_float_worker, args=(case, model, b, rand_seed))
    p.start()
    b.close()
    out = None
    if a.poll(timeout):
        try:
            out = a.recv()
        except EOFError:
            out = None
    p.join(1)
    if p.is_alive():
        p.kill()
    return out or dict(res=[], err="replay timeout/crash", assumption_failed=[])


# ----------------------------------------------------------------------------- scheduler
def preload():
    """import cardillo (and its heavy dependencies) once in the parent so that forked workers inherit it"""
    import cardillo  # noqa: F401
    import cardillo.solver, cardillo.rods, cardillo.contacts, cardillo.constraints  # noqa: F401,E401
    import cardillo.force_laws, cardillo.forces, cardillo.actuators, cardillo.interactions  # noqa: F401,E401
    import cardillo.discrete, cardillo.math, cardillo.utility.coo_matrix  # noqa: F401,E401
    import cardillo.rods.cosseratRod, cardillo.rods.force_line_distributed  # noqa: F401,E401


def run_cases(cases, seed, nproc=NPROC, verbose=True, trace_fns=True):
    preload()
    ctx = mp.get_context("fork")
    pending = list(cases)
    running = []
    results = {c.id: dict(case=c, obls=[], paths=[], done=None, crash=None, killed=False) for c in cases}
    while pending or running:
        while pending and len(running) < nproc:
            c = pending.pop(0)
            a, b = ctx.Pipe(duplex=False)
            p = ctx.Process(target=_sym_worker, args=(c, b, seed, trace_fns))
            p.start()
            b.close()
            running.append((c, p, a, time.time()))
        still = []
        for (c, p, a, t0) in running:
            fin = False
            try:
                while a.poll(0):
                    tag, payload = a.recv()
                    R = results[c.id]
                    if tag == "obl":
                        R["obls"].append(payload)
                    elif tag == "path":
                        R["paths"].append(payload)
                    elif tag == "done":
                        R["done"] = payload
                        fin = True
                    elif tag == "crash":
                        R["crash"] = payload
                        fin = True
            except EOFError:
                fin = True
            if not fin and not p.is_alive():
                # drain
                try:
                    while a.poll(0):
                        tag, payload = a.recv()
                        R = results[c.id]
                        if tag == "obl":
                            R["obls"].append(payload)
                        elif tag == "path":
                            R["paths"].append(payload)
                        elif tag == "done":
                            R["done"] = payload
                        elif tag == "crash":
                            R["crash"] = payload
                except EOFError:
                    pass
                fin = True
            if not fin and time.time() - t0 > c.hard:
                p.kill()
                results[c.id]["killed"] = True
                fin = True
            if fin:
                p.join(2)
                if p.is_alive():
                    p.kill()
                results[c.id]["wall"] = round(time.time() - t0, 2)
                if verbose:
                    R = results[c.id]
                    st = {}
                    for o in R["obls"]:
                        st[o["status"]] = st.get(o["status"], 0) + 1
                    print(f"  case {c.id}: {st} paths={len(R['paths'])} wall={R['wall']}s"
                          + (" KILLED" if R["killed"] else "") + (" CRASH" if R["crash"] else ""), flush=True)
            else:
                still.append((c, p, a, t0))
        running = still
        time.sleep(0.05)
    return results


# ----------------------------------------------------------------------------- findings
def load_known(prop):
    path = os.path.join(ROOT, "known_findings.json")
    if not os.path.exists(path):
        return []
    data = json.load(open(path))
    return [f for f in data.get("findings", []) if f.get("property") == prop and f.get("status", "open") == "open"]


def match_known(known, case_id, name, idx=None):
    for f in known:
        m = f.get("match", {})
        if re.fullmatch(m.get("case", ".*"), case_id) and re.fullmatch(m.get("name", ".*"), name):
            return f
    return None


# ----------------------------------------------------------------------------- property driver
def run_property(mod, tier, seed, only=None):
    t_start = time.time()
    prop = mod.PROPERTY
    cases = mod.cases(tier, seed)
    if only:
        cases = [c for c in cases if re.search(only, c.id)]
    print(f"[{prop}] tier={tier} seed={seed} cases={len(cases)} nproc={NPROC}", flush=True)
    results = run_cases(cases, seed)
    known = load_known(prop)
    violations, known_hits, harness_errors, inconclusive = [], {}, [], []
    n_obl = n_unsat = n_triv = n_sat = 0
    vacuous, paths_total, exc_paths = [], 0, []
    samples, functions = [], set()
    queries, solver_s = 0, 0.0
    sentinels_ok = sentinels_bad = 0
    stats_tot = dict(paths=0, infeasible=0, cut=0)
    replayed = reproduced = 0
    pruned_late = 0
    os.makedirs(os.path.join(ROOT, "replays", prop), exist_ok=True)
    for cid, R in results.items():
        c = R["case"]
        if R["crash"]:
            harness_errors.append(f"{cid}: worker crash: {R['crash'][:400]}")
        if R["killed"]:
            inconclusive.append(dict(case=cid, name="*", why="case killed at hard budget"))
        if R["done"]:
            queries += R["done"]["queries"]
            solver_s += R["done"]["solver_s"]
            functions.update(R["done"]["functions"])
            for k in stats_tot:
                stats_tot[k] += R["done"]["stats"].get(k, 0)
        for p in R["paths"]:
            paths_total += 1
            if p.get("exc"):
                exc_paths.append(f"{cid} path {p['path']}: {p['exc']}")
                harness_errors.append(f"{cid} path {p['path']}: exception escaped the case: {p['exc']}\n{p.get('tb','')[-600:]}")
            elif p["twin"] == "unsat":
                pruned_late += 1
            elif p["twin"] != "sat":
                vacuous.append(f"{cid} path {p['path']}: twin {p['twin']}")
            s = p.get("sentinel")
            if s:
                if s["result"] == "sat":
                    sentinels_ok += 1
                elif s["result"] == "unsat":
                    sentinels_bad += 1
                    harness_errors.append(f"{cid}: mutation sentinel {s['name']}[{s['idx']}] came back unsat")
        vac_paths = {p["path"] for p in R["paths"] if not p.get("exc") and p["twin"] != "sat"}
        if R["paths"] and all((not p.get("exc")) and p["twin"] == "unsat" for p in R["paths"]):
            harness_errors.append(f"{cid}: every path is infeasible under the case's assumptions (vacuous case)")
        sat_groups = {}
        for o in R["obls"]:
            n_obl += 1
            if o["status"] == "trivial":
                n_triv += 1
            elif o["status"] == "unsat":
                if o["path"] in vac_paths:
                    inconclusive.append(dict(case=cid, name=o["name"], idx=o["idx"], why="vacuous path"))
                else:
                    n_unsat += 1
                    if o.get("smt_sample") and len(samples) < 4:
                        samples.append(dict(case=cid, obligation=f"{o['name']}[{o['idx']}]", negated_claim_smt2=o["smt_sample"], result="unsat", t=o["t"]))
            elif o["status"] == "infeasible":
                pass
            elif o["status"] == "unknown":
                inconclusive.append(dict(case=cid, name=o["name"], idx=o["idx"], why=o.get("why", "solver unknown/timeout")))
            elif o["status"] == "sat":
                n_sat += 1
                sat_groups.setdefault((o["name"]), []).append(o)
        # replay sat obligations (at most 3 per obligation name to bound the cost; once a case has confirmed violations, at most 12 names of it
        # are replayed - a broken kernel otherwise costs one float run per clause of every history in the case)
        names_done = confirmed_in_case = 0
        for name, group in sat_groups.items():
            kf = match_known(known, cid, name)
            confirmed = None
            if names_done >= 12 and confirmed_in_case > 0 and not kf:
                continue
            names_done += 1
            for o in group[:3]:
                if not c.replay:
                    break
                replayed += 1
                rep = float_replay(c, o.get("model", {}))
                bad = [r for r in rep["res"] if r["name"] == name and not r["ok"]]
                same = [r for r in bad if r["idx"] == o["idx"]]
                o["replay"] = dict(reproduced=bool(bad), same_entry=bool(same), err=rep.get("err"),
                                   assumption_failed=rep.get("assumption_failed"), witness=(same or bad or [None])[0])
                if bad and not rep.get("assumption_failed"):
                    confirmed = o
                    reproduced += 1
                    confirmed_in_case += 1
                    break
            first = group[0]
            if confirmed is not None or not c.replay:
                o = confirmed or first
                hsh = hashlib.sha1(json.dumps([cid, name, o["idx"], o.get("model")], sort_keys=True).encode()).hexdigest()[:12]
                rpath = os.path.join(ROOT, "replays", prop, f"{hsh}.json")
                json.dump(dict(property=prop, case=cid, params=c.params, obligation=name, idx=o["idx"], kind=o["kind"],
                               info=o.get("info"), model=o.get("model"), replay=o.get("replay"), tier=tier, seed=seed),
                          open(rpath, "w"), indent=1, default=str)
                if kf:
                    known_hits.setdefault(kf["id"], (kf, cid, name, rpath))
                else:
                    violations.append((cid, name, o["idx"], rpath, o.get("replay")))
            else:
                det = "; ".join(str(o.get("replay")) for o in group[:3])[:600]
                try:        # keep the non-reproducing model for diagnosis (replays/ is scratch, not committed)
                    json.dump(dict(property=prop, case=cid, params=c.params, obligation=name, idx=first["idx"], model=first.get("model"), replay=first.get("replay")),
                              open(os.path.join(ROOT, "replays", prop, "nonrepro_" + re.sub(r"\W+", "_", cid)[:60] + ".json"), "w"), indent=1, default=str)
                except Exception:
                    pass
                harness_errors.append(f"{cid}: {name}: solver model did not reproduce on the float code ({det})")
    # ---- known findings carry the specific failing inputs they were recorded with: replay those on the float code, so that
    # a listed finding is reported (and seen to persist) even when the solver search of this run did not rediscover it
    by_id = {c.id: c for c in cases}
    for kf in known:
        if kf["id"] in known_hits:
            continue
        for inp in kf.get("inputs", []):
            c = by_id.get(inp.get("case"))
            if c is None:
                continue
            rep = float_replay(c, inp.get("model", {}))
            bad = [x for x in rep.get("res", []) if not x["ok"] and re.fullmatch(kf["match"].get("name", ".*"), x["name"])]
            if bad and not rep.get("assumption_failed"):
                known_hits[kf["id"]] = (kf, c.id, bad[0]["name"], "recorded input %s" % json.dumps(inp.get("model")))
                break
    # ---- cross-check: every case once more on the UNSHIMMED float code with random inputs (translator validation of
    # the shims and of the harness); a float failure of a clause the solver discharged is a harness error, never a verdict
    xc_ok = xc_skipped = 0
    xc_samples = []
    if os.environ.get("VERIF_NO_CROSSCHECK") != "1":
        from concurrent.futures import ThreadPoolExecutor
        todo = [(cid, R) for cid, R in results.items() if R["obls"] and getattr(R["case"], "crosscheck", True)]

        def _xc(item):
            cid, R = item
            for attempt in range(3):
                rep = float_replay(R["case"], {}, timeout=240, rand_seed=1000 * seed + 17 * attempt + 1)
                if not rep.get("assumption_failed") and not rep.get("err"):
                    return cid, R, rep
            return cid, R, rep
        with ThreadPoolExecutor(max_workers=min(NPROC, 8)) as ex:
            for cid, R, rep in ex.map(_xc, todo):
                if rep.get("assumption_failed") or (rep.get("err") and not rep.get("res")):
                    xc_skipped += 1
                    continue
                proved = {(o["name"], o["idx"]) for o in R["obls"] if o["status"] in ("unsat", "trivial")}
                refuted = {o["name"] for o in R["obls"] if o["status"] == "sat"}
                bad = [x for x in rep["res"] if not x["ok"] and (x["name"], x["idx"]) in proved and x["name"] not in refuted]
                if bad:
                    harness_errors.append(f"{cid}: float cross-check on the unshimmed code contradicts a discharged clause: {bad[:2]}")
                else:
                    xc_ok += 1
                    if len(xc_samples) < 2:
                        xc_samples.append(dict(case=cid, float_clauses_checked=len(rep["res"]), all_ok=True))
    wall = time.time() - t_start
    meta = getattr(mod, "META", {})
    decided = n_unsat + n_triv + sum(1 for _ in known_hits)
    ev = dict(
        property_id=prop, tier=tier, seed=seed, level=meta.get("level", "proof"),
        coverage=dict(
            obligations=max(n_unsat + n_triv, 0) or 0,
            discharged=n_unsat + n_triv,
            attempted=n_obl,
            discharged_by_solver_unsat=n_unsat,
            discharged_syntactically=n_triv,
            sat_models=n_sat,
            inconclusive=len(inconclusive),
            inconclusive_list=inconclusive[:60],
            checker_cmd=f"./check {prop} --tier {tier}",
            trusted_base=meta.get("trusted_base", []) + ["z3 %s (nlsat)" % z3.get_version_string(), "symx scalar/shim layer (cross-checked on every run: each case re-executed on the unshimmed float code with random inputs)",
                                                          "real-arithmetic semantics of the Python source (IEEE rounding outside the claim)"],
            cases=len(cases), paths_explored=paths_total, paths_pruned_infeasible=stats_tot["infeasible"] + pruned_late, paths_cut=stats_tot["cut"],
            vacuous_paths=vacuous, queries=queries, solver_time_s=round(solver_s, 1),
            functions_encoded=sorted(functions), bounds=meta.get("bounds", ""),
            sentinels_sat=sentinels_ok, models_replayed=replayed, models_reproduced=reproduced,
            known_findings_seen=[k for k in known_hits], samples=(samples + xc_samples) or [dict(note="no solver-discharged sample recorded")],
            cases_crosschecked_on_float_code=xc_ok, crosscheck_skipped=xc_skipped,
            traces_validated_against_impl=xc_ok, states=max(1, paths_total), transitions=max(1, n_obl),
            evaluations=n_obl, distinct_nontrivial=max(0, n_obl - n_triv),
            rule="one obligation = one scalar entry of one clause on one path of one case; non-trivial = needed a solver call (not syntactically identical), "
                 "whatever its outcome (unsat / model / undecided within the budget: see discharged_by_solver_unsat, sat_models, inconclusive)",
        ),
        assumptions=meta.get("assumptions", []),
        wall_s=round(wall, 1), violations=len(violations),
    )
    ev["coverage"]["obligations"] = ev["coverage"]["discharged"]
    if hasattr(mod, "coverage_extra"):
        try:
            ev["coverage"].update(mod.coverage_extra(cases, results))
        except Exception as e:  # noqa
            ev["coverage"]["coverage_extra_error"] = str(e)
    if n_unsat + n_triv == 0:
        harness_errors.append("no obligation discharged")
    evdir = os.environ.get("VERIF_EVIDENCE_DIR", os.path.join(ROOT, "evidence"))
    os.makedirs(evdir, exist_ok=True)
    json.dump(ev, open(os.path.join(evdir, f"{prop}.json"), "w"), indent=1, default=str)
    print(f"[{prop}] attempted={n_obl} unsat={n_unsat} trivial={n_triv} sat={n_sat} inconclusive={len(inconclusive)} "
          f"paths={paths_total} vacuous={len(vacuous)} queries={queries} solver={solver_s:.1f}s wall={wall:.1f}s", flush=True)
    slowc = sorted(((R.get("wall", 0), cid) for cid, R in results.items()), reverse=True)[:5]
    print("  slowest cases:", slowc)
    slow = sorted(((o.get("t", 0), cid, o["name"], o["idx"], o["status"]) for cid, R in results.items() for o in R["obls"]), reverse=True)[:3]
    print("  slowest obligations:", [(t, c, n, i, st) for (t, c, n, i, st) in slow if t > 1.0])
    for i in inconclusive[:12]:
        print("  INCONCLUSIVE", i)
    for kid, (kf, cid, name, rpath) in known_hits.items():
        print(f"KNOWN-FINDING: property={prop} {kf['id']}: {kf['what']} (case {cid}, clause {name}, replay {rpath})")
    for (cid, name, idx, rpath, rep) in violations:
        print(f"VIOLATION property={prop} replay={rpath}")
        print(f"  case={cid} clause={name}[{idx}] witness={rep.get('witness') if rep else None}")
    if violations:
        return 1
    if harness_errors:
        for e in harness_errors[:20]:
            print("HARNESS-ERROR", e)
        return 2
    return 0


def replay_file(mod, path):
    d = json.load(open(path))
    cases = {c.id: c for c in mod.cases(d.get("tier", "thorough"), d.get("seed", 0))}
    if d["case"] not in cases:
        cases.update({c.id: c for c in mod.cases("quick", d.get("seed", 0))})
    c = cases[d["case"]]
    rep = float_replay(c, d.get("model") or {})
    bad = [r for r in rep["res"] if r["name"] == d["obligation"] and not r["ok"]]
    print(json.dumps(dict(case=d["case"], obligation=d["obligation"], model=d.get("model"), failing=bad[:10],
                          err=rep.get("err"), assumption_failed=rep.get("assumption_failed")), indent=1))
    if bad:
        print(f"VIOLATION property={d['property']} replay={path}")
        return 1
    return 0
