"""numpy look-alike: delegates to numpy, but float array constructors yield object arrays and the
libm / selection / small linear-algebra functions dispatch on symbolic elements."""
import math
import types
from fractions import Fraction

import numpy as _np
import z3

from . import core
from .core import S, B, Q, CTX


class Shim(types.ModuleType):
    def __init__(self, name, base):
        super().__init__(name)
        self.__dict__["_base"] = base

    def __getattr__(self, k):
        return getattr(self.__dict__["_base"], k)


np = Shim("symnp", _np)
linalg = Shim("symnp.linalg", _np.linalg)
np.linalg = linalg


def _fl(dtype):
    if dtype is None or dtype is float or dtype is object:
        return True
    try:
        return _np.dtype(dtype).kind in "fO"
    except TypeError:
        return False


def _has_sym(a):
    if isinstance(a, (S, B)):
        return True
    if isinstance(a, _np.ndarray):
        if a.dtype != object:
            return False
        return any(isinstance(e, (S, B)) for e in a.ravel())
    if isinstance(a, (list, tuple)):
        return any(_has_sym(e) for e in a)
    return False


def _tofloat(a):
    if isinstance(a, _np.ndarray) and a.dtype == object:
        return a.astype(float)
    if isinstance(a, (list, tuple)):
        return type(a)(_tofloat(x) for x in a)
    return a


def _toobj(r):
    if isinstance(r, _np.ndarray) and r.dtype.kind == "f":
        return r.astype(object)
    if isinstance(r, tuple):
        return tuple(_toobj(x) for x in r)
    return r


def concrete_first(npf):
    """when no argument holds a symbolic value, defer to numpy's own implementation (on float casts)"""
    def deco(f):
        def g(*a, **k):
            if not any(_has_sym(x) for x in a) and not any(_has_sym(x) for x in k.values()):
                try:
                    return _toobj(npf(*[_tofloat(x) for x in a], **{kk: _tofloat(v) for kk, v in k.items()}))
                except (TypeError, ValueError):
                    pass
            return f(*a, **k)
        g.__name__ = getattr(f, "__name__", "shim")
        return g
    return deco


def zeros(shape, dtype=None, order="C", **kw):
    if _fl(dtype):
        a = _np.empty(shape, dtype=object, order=order)
        a.fill(0.0)
        return a
    return _np.zeros(shape, dtype=dtype, order=order, **kw)


def ones(shape, dtype=None, order="C", **kw):
    if _fl(dtype):
        a = _np.empty(shape, dtype=object, order=order)
        a.fill(1.0)
        return a
    return _np.ones(shape, dtype=dtype, order=order, **kw)


def empty(shape, dtype=None, order="C", **kw):
    return zeros(shape, dtype, order)


def full(shape, fill_value, dtype=None, **kw):
    if _fl(dtype):
        a = _np.empty(shape, dtype=object)
        a.fill(fill_value)
        return a
    return _np.full(shape, fill_value, dtype=dtype, **kw)


def eye(N, M=None, k=0, dtype=None, **kw):
    e = _np.eye(N, M, k)
    if _fl(dtype):
        return e.astype(object)
    return e.astype(dtype)


def identity(n, dtype=None):
    return eye(n, dtype=dtype)


def array(obj, dtype=None, copy=True, **kw):
    if dtype is not None and not _fl(dtype):
        return _np.array(obj, dtype=dtype, **kw)
    if isinstance(obj, _np.ndarray) and obj.dtype != object and obj.dtype.kind != "f":
        if dtype is None:
            return _np.array(obj, **kw)
    if dtype is None and not _has_sym(obj):
        a = _np.array(obj, **kw)
        if a.dtype.kind == "f":
            return a.astype(object)
        return a
    return _np.array(obj, dtype=object, **kw)


def asarray(obj, dtype=None, **kw):
    if isinstance(obj, _np.ndarray) and (dtype is None or (obj.dtype == object and _fl(dtype))):
        return obj
    return array(obj, dtype=dtype, **kw)


asanyarray = asarray


def zeros_like(a, dtype=None, **kw):
    a = _np.asarray(a) if not isinstance(a, _np.ndarray) else a
    if dtype is None:
        dtype = None if a.dtype.kind in "fO" else a.dtype
    return zeros(a.shape, dtype)


def ones_like(a, dtype=None, **kw):
    a = _np.asarray(a) if not isinstance(a, _np.ndarray) else a
    if dtype is None:
        dtype = None if a.dtype.kind in "fO" else a.dtype
    return ones(a.shape, dtype)


def common_type(*arrs):
    return object


def _lift(e):
    r = S.lift(e)
    if r is None:
        raise TypeError("cannot lift %r" % (e,))
    return r


def _un(name):
    npf = getattr(_np, name)

    def f(x, *a, **k):
        if isinstance(x, S):
            return getattr(x, name)()
        if isinstance(x, _np.ndarray) and x.dtype == object:
            out = _np.empty(x.shape, dtype=object)
            for i in _np.ndindex(x.shape):
                e = x[i]
                out[i] = getattr(e, name)() if isinstance(e, S) else getattr(math, name)(e)
            return out
        return npf(x, *a, **k)
    f.__name__ = name
    return f


sqrt = _un("sqrt")
sin = _un("sin")
cos = _un("cos")
tan = _un("tan")


def _un2(name, fn):
    npf = getattr(_np, name)

    def f(x, *a, **k):
        if isinstance(x, S):
            return fn(x)
        if isinstance(x, _np.ndarray) and x.dtype == object:
            out = _np.empty(x.shape, dtype=object)
            for i in _np.ndindex(x.shape):
                e = x[i]
                out[i] = fn(e) if isinstance(e, S) else npf(e)
            return out
        return npf(x, *a, **k)
    f.__name__ = name
    return f


arccos = _un2("arccos", core.arccos)
arctan = _un2("arctan", core.arctan)
arcsin = _un2("arcsin", core.arcsin)
abs_ = _un2("abs", lambda e: abs(e))
absolute = abs_


def sign(x):
    def sg(e):
        if isinstance(e, S):
            t = core.qsign_term(e.v)
            if isinstance(t, Fraction):
                return float((t > 0) - (t < 0))
            return S(Q(z3.If(t > 0, z3.RealVal(1), z3.If(t < 0, z3.RealVal(-1), z3.RealVal(0)))))
        return _np.sign(e)
    if isinstance(x, S):
        return sg(x)
    if isinstance(x, _np.ndarray) and x.dtype == object:
        out = _np.empty(x.shape, dtype=object)
        for i in _np.ndindex(x.shape):
            out[i] = sg(x[i])
        return out
    return _np.sign(x)


def _sel2(cmp_ge):
    """elementwise maximum (cmp_ge=True) / minimum via If-terms"""
    def one(a, b):
        if not isinstance(a, S) and not isinstance(b, S):
            return (a if a >= b else b) if cmp_ge else (a if a <= b else b)
        a, b = _lift(a), _lift(b)
        t = core.qsign_term(core.qadd(a.v, b.v, -1))
        if isinstance(t, Fraction):
            pick_a = (t >= 0) if cmp_ge else (t <= 0)
            return a if pick_a else b
        c = (t >= 0) if cmp_ge else (t <= 0)
        return S(core.qite(c, a.v, b.v), core.qite(c, a.d, b.d))

    def f(x, y, *a, **k):
        if not _has_sym(x) and not _has_sym(y):
            xa, ya = _np.asarray(x), _np.asarray(y)
            if xa.dtype != object and ya.dtype != object:
                return (_np.maximum if cmp_ge else _np.minimum)(x, y, *a, **k)
        xa, ya = _np.asarray(x, dtype=object), _np.asarray(y, dtype=object)
        bx, by = _np.broadcast_arrays(xa, ya)
        out = _np.empty(bx.shape, dtype=object)
        for i in _np.ndindex(bx.shape):
            out[i] = one(bx[i], by[i])
        return out if out.shape else out[()]
    return f


maximum = _sel2(True)
minimum = _sel2(False)


def clip(x, lo, hi, *a, **k):
    if not _has_sym(x) and not _has_sym(lo) and not _has_sym(hi):
        xa = _np.asarray(x)
        if xa.dtype != object:
            return _np.clip(x, lo, hi, *a, **k)
    return minimum(maximum(x, lo), hi)


def _cond_term(c):
    if isinstance(c, B):
        return c.t
    return bool(c)


def where(cond, x=None, y=None):
    if x is None and y is None:
        ca = _np.asarray(cond)
        if ca.dtype == object:
            ca = _np.array([bool(e) for e in ca.ravel()]).reshape(ca.shape)
        return _np.where(ca)
    if not _has_sym(cond):
        ca = _np.asarray(cond)
        if ca.dtype == object:
            ca = ca.astype(bool)
        xa, ya = _np.asarray(x), _np.asarray(y)
        if xa.dtype == object or ya.dtype == object:
            bc, bx, by = _np.broadcast_arrays(ca, _np.asarray(x, dtype=object), _np.asarray(y, dtype=object))
            out = _np.empty(bc.shape, dtype=object)
            for i in _np.ndindex(bc.shape):
                out[i] = bx[i] if bc[i] else by[i]
            return out if out.shape else out[()]
        return _np.where(ca, x, y)
    bc, bx, by = _np.broadcast_arrays(_np.asarray(cond, dtype=object), _np.asarray(x, dtype=object), _np.asarray(y, dtype=object))
    out = _np.empty(bc.shape, dtype=object)
    for i in _np.ndindex(bc.shape):
        c = bc[i]
        if isinstance(c, B):
            a, b = _lift(bx[i]), _lift(by[i])
            out[i] = S(core.qite(c.t, a.v, b.v), core.qite(c.t, a.d, b.d))
        else:
            out[i] = bx[i] if c else by[i]
    return out if out.shape else out[()]


def _cmp_arrays(a, b, rtol, atol):
    a, b = _np.asarray(a, dtype=object), _np.asarray(b, dtype=object)
    ba, bb = _np.broadcast_arrays(a, b)
    out = _np.empty(ba.shape, dtype=object)
    for i in _np.ndindex(ba.shape):
        x, y = ba[i], bb[i]
        if isinstance(x, S) or isinstance(y, S):
            out[i] = abs(_lift(x) - y) <= atol + rtol * abs(_lift(y))
        else:
            out[i] = bool(_np.isclose(x, y, rtol=rtol, atol=atol))
    return out


def isclose(a, b, rtol=1e-5, atol=1e-8, equal_nan=False):
    if not _has_sym(a) and not _has_sym(b):
        return _np.isclose(_np.asarray(a, dtype=float), _np.asarray(b, dtype=float), rtol=rtol, atol=atol)
    out = _cmp_arrays(a, b, rtol, atol)
    res = _np.empty(out.shape, dtype=bool)
    for i in _np.ndindex(out.shape):
        res[i] = bool(out[i])
    return res if res.shape else bool(res[()])


def allclose(a, b, rtol=1e-5, atol=1e-8, equal_nan=False):
    if not _has_sym(a) and not _has_sym(b):
        return bool(_np.allclose(_np.asarray(a, dtype=float), _np.asarray(b, dtype=float), rtol=rtol, atol=atol))
    out = _cmp_arrays(a, b, rtol, atol)
    conds = []
    for e in out.ravel():
        if isinstance(e, B):
            conds.append(e.t)
        elif not e:
            return False
    if not conds:
        return True
    return bool(B(z3.And(conds) if len(conds) > 1 else conds[0], note="allclose"))


def isfinite(a):
    aa = _np.asarray(a)
    if aa.dtype == object:
        return _np.ones(aa.shape, dtype=bool) if aa.shape else True
    return _np.isfinite(a)


def isnan(a):
    aa = _np.asarray(a)
    if aa.dtype == object:
        return _np.zeros(aa.shape, dtype=bool) if aa.shape else False
    return _np.isnan(a)


@concrete_first(_np.linalg.norm)
def _norm(x, ord=None, axis=None, **k):
    xa = _np.asarray(x)
    if xa.dtype == object and _has_sym(xa):
        if ord is None and axis is None:
            v = xa.ravel()
            return sqrt(v @ v)
        if ord is _np.inf and axis is None:
            return max_(abs_(xa.ravel()))
        if ord is None and axis in (-1, 1) and xa.ndim == 2:
            return _np.array([sqrt(r @ r) for r in xa], dtype=object)
        if ord is None and axis == 0 and xa.ndim == 2:
            return _np.array([sqrt(c @ c) for c in xa.T], dtype=object)
        raise NotImplementedError("norm ord/axis on symbolic array")
    if xa.dtype == object:
        xa = xa.astype(float)
    return _np.linalg.norm(xa, ord=ord, axis=axis, **k)


def _det(A):
    if not _has_sym(A):
        return float(_np.linalg.det(_np.asarray(A, dtype=float)))
    return _det_sym(A)


def _det_sym(A):
    A = _np.asarray(A)
    if A.dtype != object:
        return _np.linalg.det(A)
    n = A.shape[0]
    if n == 1:
        return A[0, 0]
    if n == 2:
        return A[0, 0] * A[1, 1] - A[0, 1] * A[1, 0]
    r = 0.0
    for j in range(n):
        minor = _np.delete(_np.delete(A, 0, axis=0), j, axis=1)
        r = r + ((-1) ** j) * A[0, j] * _det_sym(minor)
    return r


def _inv(A):
    A = _np.asarray(A)
    if A.dtype != object:
        return _np.linalg.inv(A)
    n = A.shape[0]
    if not _has_sym(A):
        if n > 4:
            # large concrete matrices (element compliance of mixed rods): exact when diagonal, else numpy
            off = [(i, j) for i in range(n) for j in range(n) if i != j and A[i, j] != 0]
            if off:
                return _np.linalg.inv(A.astype(float)).astype(object)
        # small concrete matrices are inverted exactly (a float inverse is only accurate to rounding, which the
        # exact-real encoding would see as A^-1 A != I)
        A = _np.array([[S(Q(core.const(x))) for x in row] for row in A], dtype=object)
    out = _np.empty((n, n), dtype=object)
    offd = [(i, j) for i in range(n) for j in range(n) if i != j and not (not isinstance(A[i, j], S) and A[i, j] == 0)
            and not (isinstance(A[i, j], S) and core.q_is_const(A[i, j].v) and A[i, j].v.n == 0)]
    if not offd:
        out.fill(0.0)
        for i in range(n):
            out[i, i] = 1 / A[i, i]
        return out
    d = _det_sym(A)
    if n == 1:
        out[0, 0] = 1 / A[0, 0]
        return out
    for i in range(n):
        for j in range(n):
            minor = _np.delete(_np.delete(A, i, axis=0), j, axis=1)
            out[j, i] = ((-1) ** (i + j)) * _det_sym(minor) / d
    return out


def _solve(A, b):
    A = _np.asarray(A)
    b = _np.asarray(b)
    if A.dtype != object and b.dtype != object:
        return _np.linalg.solve(A, b)
    return _inv(_np.asarray(A, dtype=object)) @ _np.asarray(b, dtype=object)


linalg.norm = _norm
linalg.det = _det
linalg.inv = _inv
linalg.solve = _solve


def max_(a, axis=None, **k):
    aa = _np.asarray(a)
    if aa.dtype == object and _has_sym(aa) and axis is None:
        r = None
        for e in aa.ravel():
            r = e if r is None else maximum(r, e)
        return r
    return _np.max(a, axis=axis, **k)


def min_(a, axis=None, **k):
    aa = _np.asarray(a)
    if aa.dtype == object and _has_sym(aa) and axis is None:
        r = None
        for e in aa.ravel():
            r = e if r is None else minimum(r, e)
        return r
    return _np.min(a, axis=axis, **k)


@concrete_first(_np.argmax)
def argmax(a, axis=None, **k):
    aa = _np.asarray(a)
    if aa.dtype == object and _has_sym(aa):
        assert axis is None
        flat = aa.ravel()
        best = 0
        for i in range(1, len(flat)):
            # numpy returns the first maximal index: move only on strictly greater
            if bool(_lift(flat[i]) > flat[best]):
                best = i
        return best
    return _np.argmax(a, axis=axis, **k)


@concrete_first(_np.cross)
def cross(a, b, **k):
    a, b = _np.asarray(a), _np.asarray(b)
    if a.dtype == object or b.dtype == object:
        if k.get("axisb") == 0 and b.ndim == 2 and a.ndim == 1:
            return _np.array([cross(a, b[:, i]) for i in range(b.shape[1])], dtype=object)
        if k:
            raise NotImplementedError("cross with axis arguments on symbolic arrays")
        if a.ndim == 1 and b.ndim == 2:
            return _np.array([cross(a, r) for r in b], dtype=object)
        return _np.array([a[1] * b[2] - a[2] * b[1], a[2] * b[0] - a[0] * b[2], a[0] * b[1] - a[1] * b[0]], dtype=object)
    return _np.cross(a, b, **k)


def arctan2(y, x):
    if isinstance(y, S) or isinstance(x, S):
        raise NotImplementedError("arctan2 on symbolic values")
    return _np.arctan2(y, x)


def einsum(subs, *ops, **k):
    if any(isinstance(o, _np.ndarray) and o.dtype == object for o in ops):
        k.pop("optimize", None)
        ops = [o if isinstance(o, _np.ndarray) else _np.asarray(o) for o in ops]
        ops = [o.astype(object) if o.dtype != object else o for o in ops]
        return _np.einsum(subs, *ops, **k)
    return _np.einsum(subs, *ops, **k)


_EXPORT = dict(zeros=zeros, ones=ones, empty=empty, full=full, eye=eye, identity=identity, array=array,
               asarray=asarray, asanyarray=asanyarray, zeros_like=zeros_like, ones_like=ones_like,
               common_type=common_type, sqrt=sqrt, sin=sin, cos=cos, tan=tan, arccos=arccos, arctan=arctan, arcsin=arcsin,
               abs=abs_, absolute=absolute, sign=sign, maximum=maximum, minimum=minimum, clip=clip, where=where,
               isclose=isclose, allclose=allclose, isfinite=isfinite, isnan=isnan, max=max_, min=min_,
               amax=max_, amin=min_, argmax=argmax, cross=cross, arctan2=arctan2, einsum=einsum)
for _n, _f in _EXPORT.items():
    setattr(np, _n, _f)
