"""symx core: fraction-free symbolic scalars with one forward tangent, symbolic booleans,
path exploration by re-execution, libm parametrisations.

A scalar S = (value, tangent); each a Q = num / prod(den_k ** e_k) where num is a python
Fraction (concrete) or a z3 Real term and den_k are z3 terms registered in the current
path state.  Equalities are handed to the solver cross-multiplied (polynomial identity)
together with den_k != 0.
"""
import math
from fractions import Fraction

import numpy as _np
import z3

F0 = Fraction(0)
F1 = Fraction(1)


# ----------------------------------------------------------------------------- terms
def _is_c(t):
    return isinstance(t, Fraction)


def term(t):
    """z3 term of a Fraction or term"""
    if isinstance(t, Fraction):
        if t.denominator == 1:
            return z3.RealVal(str(t.numerator))
        return z3.RealVal(f"{t.numerator}/{t.denominator}")
    return t


def const(o):
    if isinstance(o, Fraction):
        return o
    if isinstance(o, (bool, _np.bool_)):
        return Fraction(int(o))
    if isinstance(o, (int, _np.integer)):
        return Fraction(int(o))
    if isinstance(o, (float, _np.floating)):
        f = float(o)
        if f != f or f in (math.inf, -math.inf):
            raise NonFinite("non-finite constant %r" % (o,))
        return Fraction(f)
    raise TypeError("cannot lift %r" % type(o))


class NonFinite(ArithmeticError):
    pass


def tmul(a, b):
    ca, cb = _is_c(a), _is_c(b)
    if ca and cb:
        return a * b
    if ca:
        if a == 0:
            return F0
        if a == 1:
            return b
        return term(a) * b
    if cb:
        if b == 0:
            return F0
        if b == 1:
            return a
        return a * term(b)
    return a * b


def tadd(a, b):
    ca, cb = _is_c(a), _is_c(b)
    if ca and cb:
        return a + b
    if ca:
        return b if a == 0 else term(a) + b
    if cb:
        return a if b == 0 else a + term(b)
    return a + b


def tsub(a, b):
    ca, cb = _is_c(a), _is_c(b)
    if ca and cb:
        return a - b
    if cb:
        return a if b == 0 else a - term(b)
    if ca:
        return -b if a == 0 else term(a) - b
    if a.get_id() == b.get_id():
        return F0
    return a - b


def tneg(a):
    return -a


def tzero(a):
    return _is_c(a) and a == 0


# ----------------------------------------------------------------------------- context
class Infeasible(BaseException):
    """raised when the current path condition has become unsatisfiable"""


class PathCut(BaseException):
    """raised when the path budget (depth) is exhausted"""


class Ctx:
    def __init__(self):
        self.reset_all()

    def reset_all(self):
        self.mode = "sym"
        self.max_depth = 64
        self.branch_timeout = 5000
        self.hint_timeout = 20000
        self.arctan_hints = True
        self.exact_const_sqrt = False
        self.queries = 0
        self.solver_s = 0.0
        self.reset_path([])

    def reset_path(self, prefix):
        self.inputs = {}       # name -> z3 const (declaration order)
        self.input_kind = {}   # name -> kind
        self.assumes = []      # harness preconditions
        self.axioms = []       # facts about atoms
        self.path = []         # branch conditions of this path
        self.path_notes = []   # human readable
        self.taken = []
        self.decided = {}
        self.prefix = list(prefix)
        self.pending = []
        self.atoms = {}
        self.atom_list = []    # (kind, symbol, argument Q) in creation order
        self.dens = []
        self.den_idx = {}
        self.nfresh = 0
        self.wangles = []      # (Q angle value, w symbol)
        self.wchart = {}       # id of w symbol -> 2 for the cotangent chart w = cot(a/2)
        self.sqrt_hints = []
        self.obligations = []
        self.events = []       # recorder for shims (warnings, prints)
        self.lu_log = []

    def fresh(self, base):
        self.nfresh += 1
        return z3.Real(f"{base}!{self.nfresh}")

    def den_index(self, t):
        k = t.get_id()
        i = self.den_idx.get(k)
        if i is None:
            i = len(self.dens)
            self.den_idx[k] = i
            self.dens.append(t)
        return i

    def dens_nonzero(self):
        return [d != 0 for d in self.dens]

    def facts(self):
        return list(self.assumes) + list(self.axioms) + list(self.path) + self.dens_nonzero()


CTX = Ctx()


def check_sat(constraints, timeout_ms):
    """returns ('sat'|'unsat'|'unknown', model|None)"""
    import time
    t0 = time.time()
    s = z3.Solver()
    s.set("timeout", int(timeout_ms))
    s.add(*constraints)
    r = str(s.check())
    CTX.queries += 1
    CTX.solver_s += time.time() - t0
    return r, (s.model() if r == "sat" else None)


# ----------------------------------------------------------------------------- Q
class Q:
    __slots__ = ("n", "e")

    def __init__(s, n, e=()):
        s.n = n
        s.e = e


def _emerge(a, b, f):
    if not b:
        return a
    if not a and f is not None and f is max:
        return b
    d = dict(a)
    for k, p in b:
        d[k] = f(d.get(k, 0), p)
    return tuple(sorted((k, p) for k, p in d.items() if p))


def _dpow(e):
    r = F1
    for k, p in e:
        d = CTX.dens[k]
        for _ in range(p):
            r = tmul(r, d)
    return r


def _ediff(big, small):
    if big == small:
        return ()
    d = dict(big)
    for k, p in small:
        d[k] = d[k] - p
    return tuple(sorted((k, p) for k, p in d.items() if p))


QZ = Q(F0)
QONE = Q(F1)


def qadd(a, b, sign=1):
    if tzero(b.n):
        return a
    if tzero(a.n):
        return b if sign == 1 else Q(tneg(b.n), b.e)
    if a.e == b.e:
        return Q(tadd(a.n, b.n) if sign == 1 else tsub(a.n, b.n), a.e)
    e = _emerge(a.e, b.e, max)
    na = tmul(a.n, _dpow(_ediff(e, a.e)))
    nb = tmul(b.n, _dpow(_ediff(e, b.e)))
    return Q(tadd(na, nb) if sign == 1 else tsub(na, nb), e)


def qneg(a):
    return Q(tneg(a.n), a.e)


def qmul(a, b):
    if tzero(a.n) or tzero(b.n):
        return QZ
    return Q(tmul(a.n, b.n), _emerge(a.e, b.e, lambda x, y: x + y))


def qdiv(a, b):
    if tzero(b.n):
        raise ZeroDivisionError("symbolic division by literal zero")
    if tzero(a.n):
        return QZ
    if _is_c(b.n):
        num = tmul(a.n, 1 / b.n)
        e = a.e
    else:
        k = CTX.den_index(b.n)
        num = a.n
        e = _emerge(a.e, ((k, 1),), lambda x, y: x + y)
    if not b.e:
        return Q(num, e)
    d = dict(e)
    extra = []
    for k, p in b.e:
        have = d.get(k, 0)
        c = min(have, p)
        d[k] = have - c
        if p - c:
            extra.append((k, p - c))
    return Q(tmul(num, _dpow(tuple(extra))), tuple(sorted((k, p) for k, p in d.items() if p)))


def qeq_terms(a, b):
    """(l, r) polynomial terms with a == b  iff  l == r  (given all dens != 0)"""
    if a.e == b.e:
        return a.n, b.n
    e = _emerge(a.e, b.e, max)
    return tmul(a.n, _dpow(_ediff(e, a.e))), tmul(b.n, _dpow(_ediff(e, b.e)))


def qsign_term(a):
    """term with the same sign as a (given dens != 0)"""
    odd = tuple((k, 1) for k, p in a.e if p % 2)
    return tmul(a.n, _dpow(odd))


def qite(c, a, b):
    """If(c, a, b) with a z3 Bool c"""
    e = _emerge(a.e, b.e, max)
    na = tmul(a.n, _dpow(_ediff(e, a.e)))
    nb = tmul(b.n, _dpow(_ediff(e, b.e)))
    if _is_c(na) and _is_c(nb) and na == nb:
        return Q(na, e)
    return Q(z3.If(c, term(na), term(nb)), e)


def q_is_const(a):
    return _is_c(a.n) and not a.e


# ----------------------------------------------------------------------------- B
class B:
    """symbolic boolean; bool() forks the exploration"""
    __slots__ = ("t", "note")

    def __init__(s, t, note=None):
        s.t = t
        s.note = note

    def __bool__(s):
        return branch(s.t, s.note)

    @staticmethod
    def lift(o):
        if isinstance(o, B):
            return o
        return B(z3.BoolVal(bool(o)))

    def __and__(s, o):
        return B(z3.And(s.t, B.lift(o).t))

    __rand__ = __and__

    def __or__(s, o):
        return B(z3.Or(s.t, B.lift(o).t))

    __ror__ = __or__

    def __invert__(s):
        return B(z3.Not(s.t))

    def __repr__(s):
        return "B(%s)" % (s.t,)

    def __format__(s, spec):
        return "<symbool>"


_BR_RNG = __import__("random").Random(777)


def _feasible(base, cond):
    """may cond hold on the current path?  A model with all inputs pinned to random rationals settles the
    (usual) feasible case in milliseconds; otherwise the solver is asked, and only `unsat` prunes."""
    for pins in pinned_queries(CTX, _BR_RNG, 3):
        r, _ = check_sat(base + pins + [cond], 2000)
        if r == "sat":
            return True
    r, _ = check_sat(base + [cond], CTX.branch_timeout)
    return r != "unsat"


def branch(cond, note=None):
    c = CTX
    cond = z3.simplify(cond)
    if z3.is_true(cond):
        return True
    if z3.is_false(cond):
        return False
    # a condition already decided on this path (the code often re-evaluates the same test)
    known = c.decided.get(cond.get_id())
    if known is not None:
        return known
    i = len(c.taken)
    if i < len(c.prefix):
        d = c.prefix[i]
    else:
        if i >= c.max_depth:
            raise PathCut()
        base = c.facts()
        st = _feasible(base, cond)
        sf = _feasible(base, z3.Not(cond))
        if st and sf:
            c.pending.append(c.taken + [False])
            d = True
        elif st:
            d = True
        elif sf:
            d = False
        else:
            raise Infeasible()
    c.decided[cond.get_id()] = d
    c.taken.append(d)
    c.path.append(cond if d else z3.Not(cond))
    c.path_notes.append((note or str(cond)[:80], d))
    return d


# ----------------------------------------------------------------------------- S
class S:
    __slots__ = ("v", "d")

    def __init__(s, v, d=None):
        if not isinstance(v, Q):
            v = Q(v if z3.is_expr(v) else const(v))
        if d is None:
            d = QZ
        elif not isinstance(d, Q):
            d = Q(d if z3.is_expr(d) else const(d))
        s.v = v
        s.d = d

    @staticmethod
    def lift(o):
        if isinstance(o, S):
            return o
        if isinstance(o, (_np.ndarray, list, tuple)):
            return None
        if isinstance(o, B):
            raise TypeError("symbolic boolean used as a number")
        try:
            return S(Q(const(o)))
        except TypeError:
            return None

    # arithmetic
    def __add__(s, o):
        o = S.lift(o)
        if o is None:
            return NotImplemented
        return S(qadd(s.v, o.v), qadd(s.d, o.d))

    __radd__ = __add__

    def __sub__(s, o):
        o = S.lift(o)
        if o is None:
            return NotImplemented
        return S(qadd(s.v, o.v, -1), qadd(s.d, o.d, -1))

    def __rsub__(s, o):
        o = S.lift(o)
        if o is None:
            return NotImplemented
        return S(qadd(o.v, s.v, -1), qadd(o.d, s.d, -1))

    def __mul__(s, o):
        o = S.lift(o)
        if o is None:
            return NotImplemented
        if tzero(s.d.n) and tzero(o.d.n):
            return S(qmul(s.v, o.v))
        return S(qmul(s.v, o.v), qadd(qmul(s.d, o.v), qmul(s.v, o.d)))

    __rmul__ = __mul__

    def __truediv__(s, o):
        if isinstance(o, (float, _np.floating)) and math.isinf(float(o)):
            return S(0)          # finite / inf
        o = S.lift(o)
        if o is None:
            return NotImplemented
        q = qdiv(s.v, o.v)
        if tzero(s.d.n) and tzero(o.d.n):
            return S(q)
        return S(q, qdiv(qadd(s.d, qmul(q, o.d), -1), o.v))

    def __rtruediv__(s, o):
        o = S.lift(o)
        if o is None:
            return NotImplemented
        return o.__truediv__(s)

    def __neg__(s):
        return S(qneg(s.v), qneg(s.d))

    def __pos__(s):
        return s

    def __pow__(s, n):
        if isinstance(n, S):
            if q_is_const(n.v):
                n = float(n.v.n) if n.v.n.denominator != 1 else int(n.v.n)
            else:
                raise TypeError("symbolic exponent")
        if isinstance(n, (float, _np.floating)) and float(n) == int(n):
            n = int(n)
        if isinstance(n, (float, _np.floating)) and float(n) == 0.5:
            return s.sqrt()
        if isinstance(n, (float, _np.floating)) and float(n) == -0.5:
            return S(1) / s.sqrt()
        if isinstance(n, (float, _np.floating)) and float(n) == 1.5:
            return s * s.sqrt()
        if not isinstance(n, (int, _np.integer)):
            raise TypeError("unsupported exponent %r" % (n,))
        n = int(n)
        if n < 0:
            return S(1) / (s ** (-n))
        r = S(1)
        for _ in range(n):
            r = r * s
        return r

    def __rpow__(s, o):
        raise TypeError("symbolic exponent")

    def __abs__(s):
        c = qsign_term(s.v)
        if _is_c(c):
            return s if c >= 0 else -s
        cond = c >= 0
        return S(qite(cond, s.v, qneg(s.v)), qite(cond, s.d, qneg(s.d)))

    # comparisons
    def _cmp(s, o, f, sym):
        o = S.lift(o)
        if o is None:
            return NotImplemented
        t = qsign_term(qadd(s.v, o.v, -1))
        if _is_c(t):
            return f(t, 0)
        return B(f(t, 0))

    def __lt__(s, o):
        return s._cmp(o, lambda a, b: a < b, "<")

    def __le__(s, o):
        return s._cmp(o, lambda a, b: a <= b, "<=")

    def __gt__(s, o):
        return s._cmp(o, lambda a, b: a > b, ">")

    def __ge__(s, o):
        return s._cmp(o, lambda a, b: a >= b, ">=")

    def __eq__(s, o):
        if s is o:
            return True
        o2 = S.lift(o) if not isinstance(o, S) else o
        if o2 is None:
            return NotImplemented
        o = o2
        a, b = qeq_terms(s.v, o.v)
        c, d = qeq_terms(s.d, o.d)
        same_v = (a == b) if (_is_c(a) and _is_c(b)) else (True if (not _is_c(a) and not _is_c(b) and a.get_id() == b.get_id()) else None)
        same_d = (c == d) if (_is_c(c) and _is_c(d)) else (True if (not _is_c(c) and not _is_c(d) and c.get_id() == d.get_id()) else None)
        if same_v is False or same_d is False:
            return False
        if same_v and same_d:
            return True
        conds = []
        if same_v is None:
            conds.append(term(a) == term(b))
        if same_d is None:
            conds.append(term(c) == term(d))
        return B(z3.And(conds) if len(conds) > 1 else conds[0])

    def __ne__(s, o):
        r = s.__eq__(o)
        if r is NotImplemented:
            return r
        if isinstance(r, B):
            return B(z3.Not(r.t))
        return not r

    def __hash__(s):
        def h(q):
            return (q.n if _is_c(q.n) else q.n.get_id(), q.e)
        return hash((h(s.v), h(s.d)))

    def __repr__(s):
        return "S(%s|%s)" % (str(s.v.n)[:60], s.v.e)

    def __format__(s, spec):
        if q_is_const(s.v):
            return format(float(s.v.n), spec)
        return "<sym>"

    def __float__(s):
        if q_is_const(s.v):
            return float(s.v.n)
        raise TypeError("symbolic value realised at a C boundary (float())")

    def __int__(s):
        if q_is_const(s.v) and s.v.n.denominator == 1:
            return int(s.v.n)
        raise TypeError("symbolic value realised at a C boundary (int())")

    def __index__(s):
        return s.__int__()

    def __bool__(s):
        r = (s != 0)
        return bool(r)

    def conjugate(s):
        return s

    @property
    def real(s):
        return s

    @property
    def imag(s):
        return S(0)

    def value(s):
        return S(s.v)

    def tangent(s):
        return S(s.d)

    # ------------------------------------------------------------------ libm
    def sqrt(s):
        if q_is_const(s.v) and tzero(s.d.n):
            c = s.v.n
            if c < 0:
                raise NonFinite("sqrt of negative constant")
            r = math.isqrt(c.numerator), math.isqrt(c.denominator)
            if r[0] ** 2 == c.numerator and r[1] ** 2 == c.denominator:
                return S(Q(Fraction(r[0], r[1])))
            if not CTX.exact_const_sqrt:
                return S(Q(const(math.sqrt(float(c)))))
            # irrational square root of a constant: an exact algebraic atom (a float approximation would be
            # visible to the exact-real encoding as r^2 != c)
            key = ("sqrtc", c)
            ent = CTX.atoms.get(key)
            if ent is None:
                rr = CTX.fresh("sqrtc")
                CTX.axioms += [rr > 0, rr * rr == term(c)]
                CTX.atom_list.append(("sqrt", rr, s.v))
                ent = rr
                CTX.atoms[key] = ent
            return S(Q(ent))
        key = ("sqrt", s.v.n if _is_c(s.v.n) else s.v.n.get_id(), s.v.e)
        ent = CTX.atoms.get(key)
        if ent is None:
            for h in CTX.sqrt_hints:
                l, r = qeq_terms(s.v, qmul(h.v, h.v))
                hs = qsign_term(h.v)
                neg = [term(l) != term(r)]
                if not _is_c(hs):
                    neg.append(hs < 0)
                elif hs < 0:
                    continue
                if hint_valid(neg):
                    ent = ("hint", h)
                    break
            if ent is None:
                r = CTX.fresh("sqrt")
                CTX.axioms += [r >= 0, term(tmul(tmul(r, r), _dpow(s.v.e))) == term(s.v.n)]
                CTX.atom_list.append(("sqrt", r, s.v))
                ent = ("atom", r)
            CTX.atoms[key] = ent
        if ent[0] == "hint":
            h = ent[1]
            if tzero(s.d.n):
                return S(h.v)
            return S(h.v, qdiv(s.d, qmul(Q(Fraction(2)), h.v)))
        r = ent[1]
        if tzero(s.d.n):
            return S(Q(r))
        return S(Q(r), qdiv(s.d, Q(tmul(Fraction(2), r))))

    def _w(s):
        """classify the angle a = s.v against the registered Weierstrass angles"""
        key = ("w", s.v.n if _is_c(s.v.n) else s.v.n.get_id(), s.v.e)
        ent = CTX.atoms.get(key)
        if ent is None:
            two = Q(Fraction(2))
            half = Q(Fraction(1, 2))
            for (v2, w2) in CTX.wangles:
                if _same(*qeq_terms(s.v, v2)):
                    ent = ("same", w2)
                elif _same(*qeq_terms(qmul(two, s.v), v2)):
                    ent = ("half", w2)
                elif _same(*qeq_terms(qneg(s.v), v2)):
                    ent = ("neg", w2)
                elif _same(*qeq_terms(qmul(half, s.v), v2)):
                    ent = ("double", w2)
                if ent is not None:
                    break
            if ent is None:
                w = CTX.fresh("w")
                ent = ("w", w)
                CTX.wangles.append((s.v, w))
                CTX.atom_list.append(("w", w, s.v))
            CTX.atoms[key] = ent
        return ent

    def _W(s):
        """tan(a/2) as a rational expression in Weierstrass symbols"""
        kind, w = s._w()
        W = S(Q(w))
        if CTX.wchart.get(w.get_id()) == 2:
            raise NotImplementedError("tan(a/2) on the cotangent chart")
        if kind in ("w", "same"):
            return W
        if kind == "neg":
            return -W
        if kind == "double":
            return (2 * W) / (S(1) - W * W)
        raise NotImplementedError("sin/cos of a half angle")

    def _sincos(s):
        kind, w = s._w()
        one = S(1)
        if CTX.wchart.get(w.get_id()) == 2:
            # cotangent chart: w = cot(a/2); covers a = pi (w = 0), misses a = 0
            if kind not in ("w", "same", "neg"):
                raise NotImplementedError("half/double angle on the cotangent chart")
            W = S(Q(w))
            den = one + W * W
            si, co = (2 * W) / den, (W * W - one) / den
            return (-si if kind == "neg" else si), co, None
        W = s._W()
        den = one + W * W
        return (2 * W) / den, (one - W * W) / den, W

    def sin(s):
        if q_is_const(s.v) and tzero(s.d.n):
            return S(Q(const(math.sin(float(s.v.n)))))
        si, co, W = s._sincos()
        return S(si.v, qmul(co.v, s.d))

    def cos(s):
        if q_is_const(s.v) and tzero(s.d.n):
            return S(Q(const(math.cos(float(s.v.n)))))
        si, co, W = s._sincos()
        return S(co.v, qmul(qneg(si.v), s.d))

    def tan(s):
        if q_is_const(s.v) and tzero(s.d.n):
            return S(Q(const(math.tan(float(s.v.n)))))
        kind, w = s._w()
        if kind == "half":
            # s = a/2, w = tan(a/2): d tan(s) = (1 + w^2) ds
            return S(Q(w), qmul(qadd(QONE, Q(tmul(w, w))), s.d))
        si, co, W = s._sincos()
        t = S(si.v) / S(co.v)
        return S(t.v, qmul(qadd(QONE, qmul(t.v, t.v)), s.d))


def register_angle(a, chart=1):
    """register the angle term a (an S) with a fresh Weierstrass symbol on the given chart; returns the symbol"""
    kind, w = a._w()
    if chart == 2:
        CTX.wchart[w.get_id()] = 2
    return w


def _same(l, r):
    if _is_c(l) and _is_c(r):
        return l == r
    if _is_c(l) or _is_c(r):
        return False
    if l.get_id() == r.get_id():
        return True
    return z3.is_true(z3.simplify(l == r))


# ----------------------------------------------------------------------------- libm with hints
PI = z3.Real("PI")
PI_LO = Fraction(314159265358979323, 10 ** 17)
PI_HI = Fraction(314159265358979324, 10 ** 17)


def pi_axioms():
    return [PI > term(PI_LO), PI < term(PI_HI)]


def arccos(x):
    x = S.lift(x)
    if q_is_const(x.v) and tzero(x.d.n):
        return S(Q(const(math.acos(float(x.v.n)))))
    key = ("arccos", x.v.n if _is_c(x.v.n) else x.v.n.get_id(), x.v.e)
    ent = CTX.atoms.get(key)
    if ent is None:
        for (av, w) in CTX.wangles:
            A = S(av)
            c = A.cos()
            l, r = qeq_terms(x.v, c.v)
            neg = [term(l) != term(r)]
            sa = qsign_term(av)
            neg.append(term(sa) < 0)
            neg.append(term(qsign_term(qadd(av, Q(PI), -1))) > 0)
            CTX.axioms.extend(a for a in pi_axioms() if not any(a.eq(b) for b in CTX.axioms))
            if hint_valid(neg):
                ent = ("hint", av)
                break
        if ent is None:
            raise NotImplementedError("arccos of a term that is not the cosine of a registered angle in [0, pi]")
        CTX.atoms[key] = ent
    av = ent[1]
    if tzero(x.d.n):
        return S(av)
    si = S(av).sin()
    return S(av, qdiv(qneg(x.d), si.v))


def arcsin(x):
    """arcsin of a term that is (solver-checked) the sine of a registered angle a: a for a in [-pi/2, pi/2], pi - a for a in (pi/2, 3 pi/2],
    -pi - a for a in [-3 pi/2, -pi/2); the range is decided by forking the path"""
    x = S.lift(x)
    if q_is_const(x.v) and tzero(x.d.n):
        return S(Q(const(math.asin(float(x.v.n)))))
    CTX.axioms.extend(a for a in pi_axioms() if not any(a.eq(b) for b in CTX.axioms))
    half_pi = qmul(Q(Fraction(1, 2)), Q(PI))
    for (av, w) in list(CTX.wangles):
        A = S(av)
        si, co, W = A._sincos()
        l, r = qeq_terms(x.v, si.v)
        if not hint_valid([term(l) != term(r)]):
            continue
        lo = term(qsign_term(qadd(av, half_pi)))            # sign of a + pi/2
        hi = term(qsign_term(qadd(av, half_pi, -1)))        # sign of a - pi/2
        if bool(B(z3.And(lo >= 0, hi <= 0), note="arcsin: angle in [-pi/2, pi/2]")):
            val, cosb = av, co
        elif bool(B(hi > 0, note="arcsin: angle above pi/2")):
            if not bool(B(term(qsign_term(qadd(av, qmul(Q(Fraction(3, 2)), Q(PI)), -1))) <= 0, note="arcsin: angle <= 3 pi/2")):
                raise NotImplementedError("arcsin: registered angle outside [-3 pi/2, 3 pi/2]")
            val, cosb = qadd(Q(PI), av, -1), -co
        else:
            if not bool(B(term(qsign_term(qadd(av, qmul(Q(Fraction(3, 2)), Q(PI))))) >= 0, note="arcsin: angle >= -3 pi/2")):
                raise NotImplementedError("arcsin: registered angle outside [-3 pi/2, 3 pi/2]")
            val, cosb = qadd(qneg(Q(PI)), av, -1), -co
        if tzero(x.d.n):
            return S(val)
        return S(val, qdiv(x.d, S.lift(cosb).v))
    raise NotImplementedError("arcsin of a term that is not the sine of a registered angle")


def arctan(x):
    x = S.lift(x)
    if q_is_const(x.v) and tzero(x.d.n):
        return S(Q(const(math.atan(float(x.v.n)))))
    key = ("arctan", x.v.n if _is_c(x.v.n) else x.v.n.get_id(), x.v.e)
    ent = CTX.atoms.get(key)
    if ent is None:
        half = Fraction(1, 2)
        for (av, w) in (list(CTX.wangles) if CTX.arctan_hints else []):
            for k in (0, -1, 1, -2, 2, -3, 3):
                # candidate b = a + k*pi/2 ; tan b = tan a (k even) or -cot a (k odd)
                A = S(av)
                si, co, W = A._sincos()
                tb = (si / co) if k % 2 == 0 else (-(co / si))
                b = qadd(av, qmul(Q(Fraction(k, 2)), Q(PI)))
                l, r = qeq_terms(x.v, tb.v)
                neg = [term(l) != term(r),
                       term(qsign_term(qadd(b, qmul(Q(half), Q(PI))))) <= 0,
                       term(qsign_term(qadd(b, qmul(Q(half), Q(PI)), -1))) >= 0]
                CTX.axioms.extend(a for a in pi_axioms() if not any(a.eq(b_) for b_ in CTX.axioms))
                if hint_valid(neg):
                    ent = ("hint", b)
                    break
            if ent is not None:
                break
        if ent is None:
            th = CTX.fresh("atan")
            if CTX.arctan_hints:
                # fresh angle theta in (-pi/2, pi/2) with tan(theta) = x, via its own Weierstrass symbol
                TH = S(Q(th))
                kind, w = TH._w()
                si, co, W = TH._sincos()
                l, r = qeq_terms((si / co).v, x.v)
                CTX.axioms += [term(l) == term(r), w > -1, w < 1, th > -PI / 2, th < PI / 2] + pi_axioms()
            # else: the value is an unconstrained symbol (sound over-approximation); only the derivative rule is used
            CTX.atom_list.append(("atan", th, x.v))
            ent = ("hint", Q(th))
        CTX.atoms[key] = ent
    b = ent[1]
    if tzero(x.d.n):
        return S(b)
    one = S(1)
    return S(b, (S(x.d) / (one + S(x.v) * S(x.v))).v)


# ----------------------------------------------------------------------------- pinned queries
def _rand_value(rng, kind):
    x = Fraction(rng.randint(-128, 128), 64)
    if kind in ("pos",):
        x = abs(x) + Fraction(1, 8)
    elif kind == "nonneg":
        x = abs(x)
    return x


def pinned_queries(ctx, rng, tries):
    """yield lists of pin equalities over all real inputs (+ consistent Weierstrass symbols)"""
    for _ in range(tries):
        pins = []
        subst = []
        for name, sym in ctx.inputs.items():
            if z3.is_bool(sym):
                continue
            kind = ctx.input_kind.get(name, "real")
            if kind.startswith("w:") or kind == "lu":
                continue          # Weierstrass symbols are set consistently below; LU-stub outputs are left to the solver
            val = _rand_value(rng, kind)
            pins.append(sym == term(val))
            subst.append((sym, term(val)))
        # consistent w = tan(a/2) for angles whose value is determined by the pinned inputs
        for kind, w, arg in ctx.atom_list:
            if kind != "w":
                continue
            try:
                num = z3.simplify(z3.substitute(term(arg.n), *subst))
                den = z3.simplify(z3.substitute(term(_dpow(arg.e)), *subst)) if arg.e else z3.RealVal(1)
                if z3.is_rational_value(num) and z3.is_rational_value(den) and den.numerator_as_long() != 0:
                    a = Fraction(num.numerator_as_long(), num.denominator_as_long()) / Fraction(den.numerator_as_long(), den.denominator_as_long())
                    t = math.tan(float(a) / 2)
                    if math.isfinite(t) and abs(t) < 1e6:
                        tv = Fraction(t).limit_denominator(10 ** 12)
                        pins.append(w == term(tv))
                        subst.append((w, term(tv)))
            except Exception:
                pass
        yield pins




_HINT_RNG = __import__('random').Random(12345)


def hint_valid(neg_disjuncts):
    """is the hint valid, i.e. facts /\\ (d1 \\/ d2 ...) unsat?  A pinned-input refutation (cheap) is tried first
    so that an inapplicable hint costs milliseconds; only then the proof attempt with the hint time-out."""
    facts = CTX.facts()
    neg = z3.Or(neg_disjuncts) if len(neg_disjuncts) > 1 else neg_disjuncts[0]
    for pins in pinned_queries(CTX, _HINT_RNG, 2):
        r, _ = check_sat(facts + pins + [neg], 2000)
        if r == 'sat':
            return False
    r, _ = check_sat(facts + [neg], CTX.hint_timeout)
    return r == 'unsat'


# ----------------------------------------------------------------------------- exploration
def explore(fn, max_paths=256, max_depth=64):
    """run fn() once per feasible path.  Yields dict(result|exc, path, ...) after each run; the
    CTX still holds the state of that path while the consumer handles the yielded item."""
    pending = [[]]
    n = 0
    stats = dict(paths=0, infeasible=0, cut=0)
    while pending:
        pre = pending.pop()
        if n >= max_paths:
            stats["cut"] += 1 + len(pending)
            break
        CTX.reset_path(pre)
        CTX.max_depth = max_depth
        n += 1
        item = dict(prefix=pre, result=None, exc=None)
        try:
            item["result"] = fn()
            stats["paths"] += 1
        except Infeasible:
            # the path condition became unsatisfiable mid-run (e.g. a denominator that vanishes on this
            # path was registered): obligations stated before that point are still handed to the consumer
            stats["infeasible"] += 1
            pending.extend(CTX.pending)
            item["partial"] = True
            item["stats"] = stats
            yield item
            continue
        except PathCut:
            stats["cut"] += 1
            pending.extend(CTX.pending)
            continue
        except Exception as e:  # exception raised by the code under test on this path
            import traceback
            item["exc"] = e
            item["tb"] = traceback.format_exc()
            stats["paths"] += 1
        pending.extend(CTX.pending)
        item["stats"] = stats
        yield item
    explore.last_stats = stats


# ----------------------------------------------------------------------------- helpers
def var(name, tangent=None, kind="real"):
    x = z3.Real(name)
    CTX.inputs[name] = x
    CTX.input_kind[name] = kind
    return S(Q(x), None if tangent is None else tangent)


def vec(name, n, kind="real"):
    return _np.array([var(f"{name}{i}", kind=kind) for i in range(n)], dtype=object)


def jet(x, dx):
    """array of S with value x and tangent dx (values only of both)"""
    x = _np.asarray(x, dtype=object)
    dx = _np.broadcast_to(_np.asarray(dx, dtype=object), x.shape)
    out = _np.empty(x.shape, dtype=object)
    for i in _np.ndindex(x.shape):
        xv = S.lift(x[i])
        dv = S.lift(dx[i])
        out[i] = S(xv.v, dv.v)
    return out if out.shape else out[()]


def values(a):
    a = _np.asarray(a, dtype=object)
    out = _np.empty(a.shape, dtype=object)
    for i in _np.ndindex(a.shape):
        out[i] = S(S.lift(a[i]).v)
    return out if out.shape else out[()]


def tangents(a):
    a = _np.asarray(a, dtype=object)
    out = _np.empty(a.shape, dtype=object)
    for i in _np.ndindex(a.shape):
        out[i] = S(S.lift(a[i]).d)
    return out if out.shape else out[()]
