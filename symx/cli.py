import argparse
import importlib
import os
import sys


def main():
    ap = argparse.ArgumentParser()
    ap.add_argument("prop")
    ap.add_argument("--tier", default=os.environ.get("VERIF_TIER", "quick"), choices=["quick", "thorough"])
    ap.add_argument("--seed", type=int, default=int(os.environ.get("VERIF_SEED", "0")))
    ap.add_argument("--only", default=None)
    ap.add_argument("--replay", default=None)
    a = ap.parse_args()
    mod = importlib.import_module("checks." + a.prop.lower())
    from . import run
    if a.replay:
        sys.exit(run.replay_file(mod, a.replay))
    if hasattr(mod, "main"):
        sys.exit(mod.main(a.tier, a.seed, a.only))
    sys.exit(run.run_property(mod, a.tier, a.seed, a.only))


if __name__ == "__main__":
    main()
