"""Dual-mode harness context.

A *case* is a function case(h, **params) written once against this interface.
  SymH   runs it on symbolic scalars (cardillo modules shimmed): every h.eq / h.le / h.holds
         becomes one solver obligation per scalar entry.
  FloatH runs the same function on the unshimmed float code with the inputs taken from a solver
         model: the replay that decides whether a `sat` is a real violation of the real code.
"""
import math
import traceback
from fractions import Fraction

import numpy as np
import z3

from . import core
from .core import S, B, Q, CTX


class Skip(Exception):
    """raised by a case to abandon the current path without a verdict (stated in evidence)"""


class Obl:
    __slots__ = ("name", "idx", "kind", "claim", "trivial", "info", "lhs", "rhs", "snap")

    def __init__(self, name, idx, kind, claim, trivial=None, info=None, lhs=None, rhs=None):
        self.name, self.idx, self.kind, self.claim = name, idx, kind, claim
        self.trivial, self.info, self.lhs, self.rhs = trivial, info, lhs, rhs
        # the context in force when the obligation was stated (assumptions are not retroactive,
        # and denominators registered later do not constrain it)
        self.snap = (len(CTX.assumes), len(CTX.axioms), len(CTX.path), len(CTX.dens))


def _flat(a):
    a = np.asarray(a, dtype=object)
    return a.shape, list(a.ravel())


class SymH:
    sym = True

    def __init__(self, params=None):
        self.params = params or {}
        self.obls = []
        self.exc_events = []
        self.notes = []
        self.sentinel_done = False
        self.sentinels = []

    # ---- inputs
    def real(self, name):
        return core.var(name)

    def vec(self, name, n):
        return core.vec(name, n)

    def mat(self, name, m, n):
        return np.array([[core.var(f"{name}{i}{j}") for j in range(n)] for i in range(m)], dtype=object)

    def pos(self, name):
        x = core.var(name)
        CTX.assumes.append(x.v.n > 0)
        return x

    def nonneg(self, name):
        x = core.var(name)
        CTX.assumes.append(x.v.n >= 0)
        return x

    def quat(self, name):
        P = core.vec(name, 4)
        CTX.assumes.append(z3.Sum([x.v.n * x.v.n for x in P]) != 0)
        return P

    def angle(self, name, lo=None, hi=None):
        """angle symbol with its Weierstrass symbol registered; lo/hi in units of pi via (num, den)"""
        a = core.var(name, kind="angle")
        kind, w = a._w()
        CTX.input_kind[str(w)] = "w:" + name
        return a

    def boolean(self, name):
        b = z3.Bool(name)
        CTX.inputs[name] = b
        CTX.input_kind[name] = "bool"
        return B(b, note=name)

    def const(self, x):
        """exact rational constant"""
        return S(Q(core.const(x)))

    def assume(self, cond, text=""):
        if isinstance(cond, B):
            CTX.assumes.append(cond.t)
        elif z3.is_expr(cond):
            CTX.assumes.append(cond)
        elif not cond:
            raise core.Infeasible()

    def axiom(self, cond):
        self.assume(cond)

    def sqrt_hint(self, h):
        CTX.sqrt_hints.append(S.lift(h))

    # ---- derivative
    def D(self, f, args, dirs):
        """directional derivative of f(*args) along dirs (None entries are held fixed)"""
        jargs = []
        for a, d in zip(args, dirs):
            if d is None:
                jargs.append(a)
            else:
                jargs.append(core.jet(a, d))
        out = f(*jargs)
        return core.tangents(out)

    def values(self, a):
        return core.values(a)

    def jet(self, x, dx):
        return core.jet(x, dx)

    def tangents(self, a):
        return core.tangents(a)

    # ---- obligations
    def _add(self, name, idx, kind, claim, lhs=None, rhs=None, info=None):
        triv = None
        if isinstance(claim, bool):
            triv = claim
            claim = z3.BoolVal(claim)
        else:
            c = z3.simplify(claim)
            if z3.is_true(c):
                triv = True
            elif z3.is_false(c):
                triv = False
        self.obls.append(Obl(name, idx, kind, claim, triv, info, lhs, rhs))

    def eq(self, name, lhs, rhs, tol=None):
        """lhs == rhs entrywise (values).  tol: absolute tolerance (for float-constant-heavy data)"""
        sh, L = _flat(lhs)
        sh2, R = _flat(rhs)
        if sh != sh2:
            if len(R) == 1:
                R = R * len(L)
            elif len(L) == len(R):
                pass
            else:
                raise ValueError(f"{name}: shape mismatch {sh} vs {sh2}")
        for k, (a, b) in enumerate(zip(L, R)):
            a, b = S.lift(a), S.lift(b)
            if a is None or b is None:
                raise TypeError(f"{name}[{k}]: not a scalar")
            if tol is None:
                l, r = core.qeq_terms(a.v, b.v)
                if core._is_c(l) and core._is_c(r):
                    claim = (l == r)
                elif not core._is_c(l) and not core._is_c(r) and l.get_id() == r.get_id():
                    claim = True
                else:
                    claim = core.term(l) == core.term(r)
            else:
                d = a - b
                claim = (abs(d) <= tol)
                claim = claim.t if isinstance(claim, B) else bool(claim)
            self._add(name, k, "eq", claim, a, b)
            if len(self.sentinels) < 6 and tol is None and not isinstance(claim, bool) and not core.q_is_const(b.v):
                l, r = core.qeq_terms(a.v, core.qmul(Q(Fraction(1001, 1000)), b.v))
                self.sentinels.append((name, k, core.term(l) == core.term(r), core.term(b.v.n) != 0))

    def eq_tangent(self, name, jets, rhs):
        self.eq(name, core.tangents(jets), rhs)

    def le(self, name, lhs, rhs, strict=False):
        sh, L = _flat(lhs)
        sh2, R = _flat(rhs)
        if len(R) == 1:
            R = R * len(L)
        for k, (a, b) in enumerate(zip(L, R)):
            a, b = S.lift(a), S.lift(b)
            c = (a < b) if strict else (a <= b)
            self._add(name, k, "le", c.t if isinstance(c, B) else bool(c), a, b)

    def holds(self, name, cond, idx=0, info=None):
        if isinstance(cond, B):
            self._add(name, idx, "holds", cond.t, info=info)
        elif z3.is_expr(cond):
            self._add(name, idx, "holds", cond, info=info)
        else:
            self._add(name, idx, "holds", bool(cond), info=info)

    def call(self, name, f, *args, allowed=()):
        """run f(*args); an exception outside `allowed` is a violated 'does not fail' obligation"""
        try:
            r = f(*args)
            self._add(name, 0, "noexc", True)
            return r
        except allowed as e:
            self._add(name, 0, "noexc", True, info="raised allowed %s" % type(e).__name__)
            return None
        except (core.Infeasible, core.PathCut):
            raise
        except Exception as e:
            self._add(name, 0, "noexc", False, info="%s: %s" % (type(e).__name__, str(e)[:200]))
            self.exc_events.append((name, traceback.format_exc()))
            return None

    def note(self, s):
        self.notes.append(s)

    def events(self):
        return list(CTX.events)

    def lu_log(self):
        return CTX.lu_log


class _FRes:
    __slots__ = ("name", "idx", "ok", "lhs", "rhs", "info")

    def __init__(self, name, idx, ok, lhs=None, rhs=None, info=None):
        self.name, self.idx, self.ok, self.lhs, self.rhs, self.info = name, idx, ok, lhs, rhs, info


class FloatH:
    """replay interpreter: inputs from a model, real (unshimmed) code, float comparison"""
    sym = False

    def __init__(self, model, params=None, rtol=1e-6, fd_eps=1e-6, rand=None):
        self.rand = rand          # random.Random: inputs absent from the model get random values (cross-check runs)
        self.model = dict(model)
        self.params = params or {}
        self.res = []
        self.assumption_failed = []
        self.rtol = rtol
        self.fd_eps = fd_eps
        self.notes = []
        self.missing = []
        self._events = []
        self._lu = []

    def _get(self, name, default=0.0):
        if name in self.model:
            v = self.model[name]
            if isinstance(v, str):
                v = float(Fraction(v)) if v not in ("True", "False") else (v == "True")
            return v
        self.missing.append(name)
        if self.rand is not None:
            v = round(self.rand.uniform(-1.5, 1.5), 3)
            if default == 1.0 and v <= 0:          # positive / nonnegative inputs and leading quaternion entries
                v = abs(v) + 0.125
            self.model[name] = v
            return v
        return default

    def real(self, name):
        return float(self._get(name))

    def vec(self, name, n):
        return np.array([float(self._get(f"{name}{i}")) for i in range(n)])

    def mat(self, name, m, n):
        return np.array([[float(self._get(f"{name}{i}{j}")) for j in range(n)] for i in range(m)])

    def pos(self, name):
        x = float(self._get(name, 1.0))
        if not x > 0:
            self.assumption_failed.append(f"{name} > 0")
        return x

    def nonneg(self, name):
        x = float(self._get(name, 1.0))
        if not x >= 0:
            self.assumption_failed.append(f"{name} >= 0")
        return x

    def quat(self, name):
        P = np.array([float(self._get(f"{name}{i}", 1.0 if i == 0 else 0.0)) for i in range(4)])
        if P @ P == 0:
            self.assumption_failed.append(f"|{name}| != 0")
        return P

    def angle(self, name, lo=None, hi=None):
        return float(self._get(name))

    def boolean(self, name):
        return bool(self._get(name, False))

    def const(self, x):
        return float(x)

    def assume(self, cond, text=""):
        if not bool(cond):
            self.assumption_failed.append(text or "assumption")

    axiom = assume

    def sqrt_hint(self, h):
        pass

    def D(self, f, args, dirs):
        def shifted(sgn):
            out = []
            for a, d in zip(args, dirs):
                if d is None:
                    out.append(a)
                else:
                    out.append(np.asarray(a, dtype=float) + sgn * self.fd_eps * np.asarray(d, dtype=float))
            return out
        fp = np.asarray(f(*shifted(+1)), dtype=float)
        fm = np.asarray(f(*shifted(-1)), dtype=float)
        return (fp - fm) / (2 * self.fd_eps)

    def values(self, a):
        return a

    def eq(self, name, lhs, rhs, tol=None):
        L = np.asarray(lhs, dtype=float)
        R = np.asarray(rhs, dtype=float)
        Lr, Rr = L.ravel(), R.ravel()
        if len(Rr) == 1 and len(Lr) > 1:
            Rr = np.repeat(Rr, len(Lr))
        scale = max(1.0, float(np.max(np.abs(Lr))) if len(Lr) else 1.0, float(np.max(np.abs(Rr))) if len(Rr) else 1.0)
        for k, (a, b) in enumerate(zip(Lr, Rr)):
            if tol is None:
                ok = abs(a - b) <= self.rtol * scale
            else:
                ok = abs(a - b) <= tol * (1 + 1e-9)
            if not (math.isfinite(a) and math.isfinite(b)):
                ok = True  # non-finite floats are outside the real-arithmetic claim
            self.res.append(_FRes(name, k, bool(ok), float(a), float(b)))

    def le(self, name, lhs, rhs, strict=False):
        L = np.asarray(lhs, dtype=float).ravel()
        R = np.asarray(rhs, dtype=float).ravel()
        if len(R) == 1 and len(L) > 1:
            R = np.repeat(R, len(L))
        for k, (a, b) in enumerate(zip(L, R)):
            slack = 1e-9 * max(1.0, abs(a), abs(b))
            ok = (a < b + slack) if not strict else (a < b + slack)
            self.res.append(_FRes(name, k, bool(ok), float(a), float(b)))

    def holds(self, name, cond, idx=0, info=None):
        self.res.append(_FRes(name, idx, bool(cond), info=info))

    def call(self, name, f, *args, allowed=()):
        try:
            r = f(*args)
            self.res.append(_FRes(name, 0, True))
            return r
        except allowed as e:
            self.res.append(_FRes(name, 0, True, info="raised allowed %s" % type(e).__name__))
            return None
        except Exception as e:
            self.res.append(_FRes(name, 0, False, info="%s: %s" % (type(e).__name__, str(e)[:300])))
            return None

    def note(self, s):
        self.notes.append(s)

    def events(self):
        return self._events

    def lu_log(self):
        return self._lu


def _arr_sym(self, x):
    return np.array(x, dtype=object)


def _arr_float(self, x):
    return np.array(x, dtype=float)


SymH.arr = _arr_sym
FloatH.arr = _arr_float


def _abstract_sym(self, name, value):
    """replace a (large) term by a fresh unconstrained symbol: the clause is then decided for every value the
    term could take (sound over-approximation); the float replay uses the value itself"""
    return core.var("abs_" + name, kind="abstract")


def _abstract_float(self, name, value):
    return value


SymH.abstract = _abstract_sym
FloatH.abstract = _abstract_float


def _option_sym(self, name, value):
    setattr(CTX, name, value)


SymH.option = _option_sym
FloatH.option = lambda self, name, value: None


# ---- rotation-vector input by the polynomial cone parametrisation
def _cone_sym(self, prefix, chart="lt_pi", mirror=False, upper=None):
    """psi = lam (2p, 2q, 1-p^2-q^2) (mirror: z negated), |psi| = lam (1+p^2+q^2) =: a, lam >= 0.
    chart: 'lt_pi'   0 <= a < PI   (w = tan(a/2) >= 0, w = 0 iff a = 0)
           'gt_pi'   PI < a < 2 PI (w < 0)
           'free'    no range facts
    upper: optional extra strict upper bound on a (python float, e.g. np.pi the double)"""
    lam = core.var(prefix + "_lam", kind="nonneg")
    p = core.var(prefix + "_p")
    q = core.var(prefix + "_q")
    CTX.assumes.append(lam.v.n >= 0)
    return _cone_build_sym(self, lam, p, q, chart, mirror, upper)


def _cone_build_sym(self, lam, p, q, chart="lt_pi", mirror=False, upper=None, register=True):
    one = S(1)
    a = lam * (one + p * p + q * q)
    z = lam * (one - p * p - q * q)
    psi = np.array([lam * 2 * p, lam * 2 * q, -z if mirror else z], dtype=object)
    if register:
        A = S(a.v)
        CTX.sqrt_hints.append(A)
        kind, w = A._w()
        PI = core.PI
        CTX.axioms.extend(core.pi_axioms())
        an = core.term(a.v.n)
        if chart == "lt_pi":
            CTX.assumes += [an < PI, w >= 0, (w == 0) == (an == 0)]
            CTX.sqrt_hints.append(A.sin())      # sqrt(1 - cos^2) = sin >= 0 on [0, pi]
        elif chart == "gt_pi":
            CTX.assumes += [an > PI, an < 2 * PI, w < 0]
        if upper is not None:
            CTX.assumes.append(an < core.term(core.const(upper)))
    return psi, a


def _cone_float(self, prefix, chart="lt_pi", mirror=False, upper=None):
    lam = float(self._get(prefix + "_lam", 1.0))
    p = float(self._get(prefix + "_p"))
    q = float(self._get(prefix + "_q"))
    if lam < 0:
        self.assumption_failed.append("lam >= 0")
    return _cone_build_float(self, lam, p, q, chart, mirror, upper)


def _cone_build_float(self, lam, p, q, chart="lt_pi", mirror=False, upper=None, register=True):
    a = lam * (1 + p * p + q * q)
    z = lam * (1 - p * p - q * q)
    psi = np.array([lam * 2 * p, lam * 2 * q, -z if mirror else z], dtype=float)
    if register:
        if chart == "lt_pi" and not (a < math.pi):
            self.assumption_failed.append("angle < pi")
        if chart == "gt_pi" and not (math.pi < a < 2 * math.pi):
            self.assumption_failed.append("pi < angle < 2 pi")
        if upper is not None and not (a < upper):
            self.assumption_failed.append("angle < upper")
    return psi, a


SymH.cone = _cone_sym
FloatH.cone = _cone_float
SymH.cone_build = _cone_build_sym
FloatH.cone_build = _cone_build_float


def _sparse_sym(self, a):
    from .shims import SymMat
    return SymMat(np.asarray(a, dtype=object))


def _sparse_float(self, a):
    from scipy.sparse import csc_array
    return csc_array(np.asarray(a, dtype=float))


SymH.sparse = _sparse_sym
FloatH.sparse = _sparse_float


# ---- warnings / prints emitted by the code under test, in both modes
import contextlib as _ctxlib
import warnings as _w


@_ctxlib.contextmanager
def _capture_sym(self):
    from . import shims
    if not shims._PATCHED:
        # unshimmed symbolic run (fault-schedule exploration): the code really warns / prints
        with _capture_float(self) as box:
            yield box
        return
    n0 = len(CTX.events)
    box = dict(warnings=[], prints=[])
    try:
        yield box
    finally:
        for e in CTX.events[n0:]:
            if e[0] == "warn":
                box["warnings"].append(e[1])
            elif e[0] == "print":
                box["prints"].append(e[1])


@_ctxlib.contextmanager
def _capture_float_impl(self):
    import io
    box = dict(warnings=[], prints=[])
    buf = io.StringIO()
    with _w.catch_warnings(record=True) as wl:
        _w.simplefilter("always")
        with _ctxlib.redirect_stdout(buf):
            try:
                yield box
            finally:
                box["warnings"] = [str(x.message) for x in wl]
                box["prints"] = [l for l in buf.getvalue().splitlines() if l]


_capture_float = _capture_float_impl
SymH.capture = _capture_sym
FloatH.capture = _capture_float


# ---- no division by zero / finite results
def _finite_sym(self, name, f):
    """run f(); every divisor it introduces must be nonzero under the assumptions and the path condition
    (the blanket 'denominators are nonzero' assumption is NOT granted to these divisors)"""
    n0 = len(CTX.dens)
    out = f()
    new = CTX.dens[n0:]
    if new:
        snap = (len(CTX.assumes), len(CTX.axioms), len(CTX.path), n0)
        self._add(name, 0, "finite", z3.And([d != 0 for d in new]) if len(new) > 1 else (new[0] != 0))
        self.obls[-1].snap = snap
    else:
        self._add(name, 0, "finite", True)
    return out


def _finite_float(self, name, f):
    with np.errstate(all="ignore"):
        out = f()
    vals = out if isinstance(out, (tuple, list)) else (out,)
    ok = all(bool(np.all(np.isfinite(np.asarray(v, dtype=float)))) for v in vals if v is not None)
    self.res.append(_FRes(name, 0, ok, info=None if ok else "non-finite result"))
    return out


SymH.finite = _finite_sym
FloatH.finite = _finite_float


def _assume_eq_sym(self, a, b, text=""):
    a, b = S.lift(a), S.lift(b)
    l, r = core.qeq_terms(a.v, b.v)
    CTX.assumes.append(core.term(l) == core.term(r))


def _assume_eq_float(self, a, b, text=""):
    if not abs(float(a) - float(b)) <= 1e-8 * max(1.0, abs(float(a)), abs(float(b))):
        self.assumption_failed.append(text or "assumed equality")


SymH.assume_eq = _assume_eq_sym
FloatH.assume_eq = _assume_eq_float
