#!/bin/sh
# Builds the overlay virtualenv /verif/.venv on top of /venv (which has cardillo's
# dependencies) and installs the solvers from the offline wheelhouse.  Idempotent.
set -e
cd "$(dirname "$0")"
V=.venv
if [ ! -x "$V/bin/python" ] || ! "$V/bin/python" -c "import z3, numpy, scipy" 2>/dev/null; then
  rm -rf "$V"
  /venv/bin/python -m venv "$V"
  SP=$("$V/bin/python" -c "import sysconfig; print(sysconfig.get_paths()['purelib'])")
  printf '/venv/lib/python3.12/site-packages\n' > "$SP/base.pth"
  PIP_NO_INDEX=1 "$V/bin/pip" install -q --no-index --find-links /opt/veriftools/wheels z3-solver cvc5 >/dev/null 2>&1 || \
  PIP_NO_INDEX=1 "$V/bin/pip" install -q --no-index --find-links /opt/veriftools/wheels z3-solver
fi
"$V/bin/python" -c "import z3; print('z3', z3.get_version_string())"
