#!/usr/bin/env python3
"""Regenerates MANIFEST.json from the table below (kept in one place so it is always valid)."""
import json
import os
import sys

ROOT = os.path.dirname(os.path.dirname(os.path.abspath(__file__)))
sys.path.insert(0, ROOT)

PROOF_NOTE = ("Real-arithmetic semantics of the Python source (IEEE rounding/overflow outside the claim); "
              "every denominator met on an explored path is assumed nonzero; libm by Weierstrass / cone "
              "parametrisations and sqrt atoms (DESIGN 2.4); LU stub contract where a linear solve occurs; "
              "configuration grid and path bounds as in evidence.coverage.bounds; trusted: z3 5.1 nlsat, "
              "CPython/numpy object-dtype kernels, the symx scalar+shim layer (every case is re-run on the unshimmed float code with random inputs on every run).")

# id -> (category, text, design_ref, technique, extra note)
CLAIMED = {
    "C01": ("proof", "Every clause (orthonormality, det, scale invariance, composition, T*T_inv, spin, three derivative routines, "
            "skew/cross algebra) is an SMT obligation over the terms produced by running the real functions on symbolic "
            "quaternions; z3 answers unsat for all real inputs at once. Right level: the property is a finite set of "
            "polynomial identities in the state.", "4/C01",
            "symbolic execution of the real numpy code on z3 terms + z3 nlsat per scalar obligation; float replay of models", ""),
    "C04": ("proof", "Velocity/acceleration/Jacobian/angular-velocity clauses and every stated partial derivative of RigidBody, PointMass and "
            "Frame are compared with the chain-rule tangent of the repo's own primal function, for all real states, offsets, masses and "
            "inertias at once; gyroscopic power, quaternion length rate, M symmetric positive definite, E_kin, step_callback normalisation.",
            "4/C04", "symbolic execution of the real code on z3-term jets + z3 nlsat per scalar obligation; float replay of models", ""),
    "C12": ("proof", "Forces/couples are compared with the chain-rule tangent of the strain energy, tangent matrices with the tangent of "
            "forces/couples, and Simo1986's complementary energy/compliances with the Legendre dual, for all real strains, reference strains "
            "and positive stiffnesses at once.", "4/C12",
            "symbolic execution of the real material-law code on z3-term jets + z3 nlsat per scalar obligation; float replay of models", ""),
    "C27": ("proof", "Feasibility, idempotence, projection inequality, non-expansiveness, degenerate ball, residual Jacobians on both active-set "
            "branches and positivity of the prox-parameter estimate are decided per path of the real prox code for all real inputs of "
            "dimension 1..2 (3 in the thorough tier).", "4/C27",
            "path-exploring symbolic execution of the real prox code (forks on max/if) + z3 nlsat per obligation; float replay of models",
            "Bounded in the vector dimension (n <= 2 quick, n <= 3 thorough; nu <= 3)."),
    "C02": ("proof", "Round trips Log(Exp psi)=psi, Exp(Log A)=A, Spurrier (all argmax paths), T*T_inv=I on [0,pi) and (pi,2pi), spin, and the SE(3) "
            "round trips are decided per path of the real code with rotation vectors given by a polynomial cone parametrisation and angles by a free "
            "Weierstrass symbol; exact half turns by the cotangent chart. The rounding-distance clause is outside (no IEEE model of arccos).",
            "4/C02", "path-exploring symbolic execution of the real rotation code (sqrt/arccos resolved by solver-checked hints) + z3 nlsat per scalar obligation; float replay of models",
            "Known finding C02-log-so3-half-turn is reported as KNOWN-FINDING."),
    "C03": ("proof", "Each derivative routine is compared, entry by entry, with the chain-rule tangent of its primal run on jets over the cone "
            "coordinates (and at psi = 0 exactly); Log_SO3_A on general matrices with trace tied to an angle; Log_SE3_H along SE(3) tangents. "
            "Exact real arithmetic; float cancellation for tiny |psi| is outside.", "4/C03",
            "symbolic execution of the real code on z3-term jets + z3 nlsat per scalar obligation; float replay of models",
            "Some Log_SE3_H translational rows stay undecided within the time-out and are listed as inconclusive in the evidence."),
    "C05": ("proof", "For each joint class on a grid of subsystem pairings and axes (real objects assembled in a real System), the six levels of "
            "the kinematic hierarchy (g_dot = d/dt g, W_g = (d g_dot/du)^T, g_dot_u = W_g^T, g_ddot = d/dt g_dot, g_q, g_dot_q, Wla_g_q) are decided entry "
            "by entry for all real states, non-unit quaternions and constraint-violating states included; 'satisfied where defined' with fully "
            "symbolic initial poses and joint placement.", "4/C05",
            "symbolic execution of the real joint code on z3-term jets + z3 nlsat per scalar obligation; float replay of models",
            "Bounded configuration grid (see evidence.coverage.bounds); rod cross-section pairings are outside."),
    "C06": ("proof", "Gap = signed distance (plane: distance bound for every plane point and equality at the foot point; spheres: centre distance "
            "minus radii), slip velocity = tangential relative velocity of the material contact points obtained from the subsystems' own v_P, and the "
            "whole derivative hierarchy (g_N_dot, W_N, g_N_ddot, gamma_F_dot, W_F, every _q/_u routine) are decided entry by entry for all real states; "
            "every System-level contact derivative returns or raises NotImplementedError.", "4/C06",
            "symbolic execution of the real contact code on z3-term jets + z3 nlsat per scalar obligation (pinned-input refutation first); float replay of models",
            "Bounded grid (evidence.coverage.bounds). Sphere2Sphere friction q-derivatives are decided per basis direction; in the quick tier only two "
            "seeded directions with a short time-out (undecided entries are listed as inconclusive). Known finding C06-s2s-gamma_F_dot."),
    "C07": ("proof", "Power balance h.u = -dE_pot/dt (Spring, Force), passivity identities of KelvinVoigt and Maxwell elements (power + stored-energy "
            "rate equals minus a square), compliance residual zero at the force-form force with W_c = W_l, on two-point interactions and on revolute "
            "joints (states on the joint manifold), and System.E_pot = sum of contributions, decided for all real states and parameters.", "4/C07",
            "symbolic execution of the real force-element code on z3-term jets + z3 nlsat per scalar obligation; float replay of models",
            "Bounded grid (evidence.coverage.bounds); rod line load is covered in the rod checks' systems."),
    "C08": ("proof", "Every reported derivative (l_q, l_dot_q, l_dot_u, W_l_q, _n_q; la_c_q/u, h_q/u, c_q/u, c_la_c, Wla_c_q; Maxwell h_q, q_dot_q/u; "
            "Force/B_Force/Moment/B_Moment h_q; Revolute l_q..W_l_q; Motor/PD/PID Wla_tau_q/u, la_tau_q/u, q_dot_q) is compared entry by entry with the "
            "chain-rule tangent of its primal for all real states and parameters.", "4/C08",
            "symbolic execution of the real code on z3-term jets + z3 nlsat per scalar obligation; float replay of models",
            "Bounded grid; the damper-force Jacobians on rigid-body pairings are decided per basis direction (two seeded directions in the quick tier)."),
    "C09": ("proof", "The real System.assemble is executed with symbolic initial poses, offsets and angle0 for every force-law class on two-point "
            "interactions and revolute joints with l_ref=None; assembling succeeds on every path and E_pot, la_c / force and h vanish at (t0, q0, u0); "
            "the stored energy elsewhere is measured from the initial length.", "4/C09",
            "symbolic execution of the real assembly code on z3 terms (syntactic normal form of the fraction-free scalars decides the zero clauses; z3 nlsat the rest); float replay of models",
            "Bounded grid of pairings/axes; most zero clauses are discharged syntactically after symbolic execution (stated in the evidence)."),
    "C10": ("proof", "Reference configuration stress-free (E_pot, internal forces, compliance and constraint residuals vanish at a fully symbolic "
            "reference Q), invariance of compliance/constraint residuals and of the strain energy under a superposed symbolic rigid motion (the "
            "energy per generator of the rotation group), translation invariance of internal forces, zero resultant of the internal nodal forces for "
            "every state.", "4/C10",
            "symbolic execution of the real rod code on z3 terms + z3 nlsat per scalar obligation; float replay of models",
            "Bounded grid: Quaternion and R12 interpolation, degree 1, 1-2 elements in the quick tier (SE3, degree 2 only in the thorough tier and possibly inconclusive)."),
    "C11": ("proof", "Kinematic-equation Jacobians, element Jacobians (f_int_el_qe, c_el_qe, Wla_c_el_qe, c_la_c_el, g_q_el, Wla_g_q_el), _deval vs _eval, "
            "cross-section position/orientation/velocity/acceleration Jacobians, nodal interpolation property, rotation property of A_IB, M symmetric "
            "positive semidefinite with E_kin = 1/2 u^T M u, power-free gyroscopic forces and their Jacobian - each compared with the chain-rule tangent "
            "of the primal, at non-unit nodal quaternions.", "4/C11",
            "symbolic execution of the real rod code on z3-term jets + z3 nlsat per scalar obligation; float replay of models",
            "Bounded grid as C10; element Jacobians per basis direction (three seeded directions per formulation in the quick tier); clauses that mix "
            "differently associated float quadrature constants are decided with an absolute tolerance on the unit box (homogeneity gives the relative statement)."),
    "C13": ("proof", "With xi symbolic the real element lookup and basis evaluation are explored path by path: containment of xi in the returned "
            "element, partition of unity, zero-sum derivatives, derivative routine = derivative of the basis; Gauss/Lobatto exactness for every "
            "monomial of admissible degree on a symbolic interval; Kronecker property and mesh connectivity enumerated over the grid.", "4/C13",
            "path-exploring symbolic execution of the real basis/quadrature code + z3 nlsat per obligation with explicit tolerances over exact rational float values; float replay of models",
            "Bounded in degree, element count and number of quadrature points (evidence.coverage.bounds); connectivity and nodal clauses are concrete enumerations."),
    "C15": ("model_checking", "Bounded exhaustive exploration of write histories through the real CooMatrix code with symbolic block values: after every "
            "write all conversions equal the dense accumulation; inconsistent block shapes raise on every history; constructor rejects invalid shapes. "
            "Right level: the property is about the container's control flow over value/key kinds, values only flow through.", "4/C15",
            "symbolic execution of the real container code on z3-term values over enumerated write histories; equalities decided by the normal form of the symbolic scalars / z3; float cross-check on the unshimmed scipy code",
            "Histories bounded to length 3 (quick) / 4 (thorough) on a 3x3 container, all histories <= 2 with slice keys on 3x3, 2x4, 4x2; concrete index sets; array('d') and scipy conversions stubbed by their documented law (values, not bytes)."),
    "C22": ("model_checking", "The user function is an arbitrary map (fresh symbols per call), linear solves return arbitrary vectors; every path of the real "
            "fsolve / fixed-point loops within the iteration bound is explored and on each path the solver decides: success iff the scaled residual "
            "criterion holds at the returned point (residual evaluated there), warning iff not converged, fixed-point helpers return only iterates "
            "meeting atol/rtol and raise only otherwise; approx_fprime exact on quadratics (3-point) / first-order error eps*A_ii (2-point).", "4/C22",
            "path-exploring symbolic execution of the real helper code with scripted environment + z3 nlsat per path obligation; float replay of models",
            "Also a map that updates its argument in place and NaN-able error norms (IEEE comparison semantics, replay injects NaN). Bounds: dimension <= 2, iteration limits <= 2 (quick) / 3; 'cs' method and ill-conditioning outside."),
    "C21": ("model_checking", "The real solve() of BackwardEuler, Rattle, Moreau, DualStormerVerlet and the static Newton solver runs on tiny systems while "
            "the outcome of every nonlinear solve and fixed-point test is a symbolic boolean; the path engine explores every fault schedule within "
            "the bound (2 steps x 2 iterations, continue_with_unconverged on/off) and a monitor decides on each: failure => raised, or warned and "
            "continued, or warned and only converged steps returned; no failure => silent complete run. ScipyIVP/ScipyDAE on contact systems must raise or warn.",
            "4/C21", "fault-schedule exploration: symbolic booleans injected into the real solver loops (rebinding fsolve / norm in the solver module), z3 for path feasibility, all schedules within the bound; float replay of the schedule",
            "Coverage is exhaustive over <= 2 steps x <= 2 iterations only (Rattle with continue_with_unconverged is cut at the path budget in the quick tier; paths_cut is reported)."),
    "C20": ("proof", "(a) The time-grid law of each solver is read from its source (AST) and encoded bit-precisely in IEEE-754 double (z3 QF_FP): "
            "'ends at the first grid point at or after t1' is asked for all doubles t1, dt within the bound; models are replayed on every real solver "
            "using that law. (b) Row counts and widths of all stored fields on concrete runs of every solver. (c) Solution.__iter__ with symbolic "
            "entries: one record per instant, each field equal to its row.", "4/C20",
            "bit-precise floating-point SMT (z3 QF_FP) of the grid construction read from the solver source + symbolic execution of Solution.__iter__; float replay on the real solvers",
            "The step count of loop solvers is TRANSLATED from the loop's iterable (+ - * /, int, round, ceil, floor, len(np.arange)); exact clauses (known finding C20-time-grid-rounding, reported as KNOWN-FINDING) and half-step-tolerant clauses; constructions outside the translator run the real solver on solver-chosen class representatives (no proof claimed there). Rows also on every fault schedule (truncated runs). Bounded to <= 5 (quick) / 16 (thorough) grid points, t0 = 0; save/load outside."),
    "C25": ("proof", "Inductive step of the angle tracking: from ANY tracking state satisfying the invariant (integer turn count n, previous quadrant) one "
            "call of the real Revolute.l after an increment |delta| < pi/2 returns angle0 + 2 pi (n + m) + phi with the wrap count m, leaves turn "
            "count n + m and the quadrant of the new angle, is idempotent, and reset / assembly establish the invariant. All four quadrant branches "
            "of the real code per case; libm arctan resolved by solver-checked hints.", "4/C25",
            "symbolic execution of the real quadrant/arctan code from an arbitrary invariant-satisfying state (Weierstrass angle, quadrant range axioms) + z3 per obligation; float replay",
            "Histories of any length follow by induction on the stated invariant; phi = pi exactly and |n| > 1000 are outside; tolerance 1e-9 for np.pi vs pi."),
    "C26": ("model_checking", "2-safety: for every memoised method and every enumerated aliasing pattern between two argument tuples, with and without "
            "a state-changing operation in between, the memoised result is compared (symbolically, entry by entry) with the result the same object "
            "computes with its caches cleared just before the call. A key that omits an argument group the body reads, or an attribute the key cannot "
            "see, yields a stale hit and a solver counterexample.", "4/C26",
            "bounded exploration of operation sequences on the real objects with symbolic arguments (cachetools running on structural symbolic keys) + z3 per compared entry; float replay",
            "Sequences of length <= 3; aliasing enumerated per argument group rather than decided by the solver."),
    "C14": ("proof", "Every System evaluation (vectors, matrices, energies, impact quantities) on a symbolic state is compared entry by entry with the dense "
            "accumulation of the contributions' own outputs at their DOF index sets, on three seeded system families built and assembled through the real "
            "API; index sets partition their ranges; assemble() twice leaves layout and evaluations unchanged; add/remove/pop/extend histories keep "
            "names unique and the registry exact.", "4/C14",
            "symbolic execution of the real assembly / scatter code on z3-term states (equalities decided by the symbolic normal form / z3) + bounded exhaustive registry histories; float cross-check on the unshimmed code",
            "Also derived evaluations (xi_F, chi_*, zeta_g, g_dot_u, E_kin, Mu_q, tau / set_tau) incl. an actuator family with ntau != nla_tau and a rod with a spring between two of its own cross-sections (repeated DOFs). Bounded: these system families, registry histories of length <= 3 (quick) / 4."),
    "C17": ("proof", "Inductive step from an arbitrary symbolic state: the real Moreau.step is executed with the linear solve stubbed by the LU contract and "
            "the rows of its recorded linear system are proved identical to the momentum balance and to -g_dot at the midpoint configuration evaluated at "
            "the solution (so the midpoint velocity constraints hold exactly at every step); BackwardEuler.R_x and Rattle.R_x1 rows identical to "
            "g/gamma/c at (t_{n+1}, q_{n+1}); step_callback normalises quaternions and leaves g, g_dot unchanged; ScipyIVP multipliers satisfy the "
            "equations of motion and g_ddot = 0.", "4/C17",
            "symbolic execution of the real solver step / residual code on z3 terms with the LU contract (rows-as-identities) + z3 nlsat per scalar obligation; float replay",
            "Also through the real solve() / _step with the nonlinear / fixed-point helper replaced by its contract stub: Rattle velocity stage and DualStormerVerlet (moving anchor); forwarding of tolerances to the scipy integrators; initial normalisation. Per-step algebraic guarantees only: ScipyDAE drift (third-party integrator) and accumulated error over many steps are outside; "
            "'within solver tolerance' follows by composition with C22 (argued in DESIGN)."),
    "C18": ("proof", "The real projection stages (Moreau.prox, Rattle.prox1/prox2, BackwardEuler.prox) run on solver objects whose per-step state is "
            "symbolic; on every path of the min / ball projections: P_N >= 0, friction in the Coulomb disk; at a fixed point of the projection "
            "(hypothesis): complementarity with the gap resp. the restituted gap rate, and for sliding contacts maximal dissipation; contacts that are not "
            "closed get no velocity-level percussion.", "4/C18",
            "path-exploring symbolic execution of the real projection code on z3 terms + z3 nlsat per obligation under the fixed-point hypothesis; float replay at float fixed points",
            "One contact with two friction components (two contacts for the index sets of BackwardEuler / Rattle stage 1); DualStormerVerlet's projection closure through its real _step; Moreau.step on sphere-sphere contact (restituted gap rate on the midpoint kinematics); reaching the fixed point and the kinetic-energy clause are outside."),
    "C16": ("proof", "The real System.assemble / consistent_initial_conditions runs symbolically (parameters, admissible initial values and the LU-stub "
            "outputs symbolic): the rows of the recorded initial linear system are proved identical to the equations of motion including applied, "
            "actuator, compliance and constraint forces and to g_ddot; on every path that returns the initial state satisfies the position / velocity "
            "constraints and the contact is not penetrated or approaching; every other path raises; returned contact forces are non-negative and in "
            "the friction cone.", "4/C16",
            "path-exploring symbolic execution of the real assembly code with the LU contract (rows-as-identities) + z3 per obligation; float replay",
            "Grid of three small systems; contact fixed-point loop bounded to 2 iterations; acceleration-level complementarity only as far as the projections' ranges."),
    "C23": ("proof", "Newton.fun residual rows are proved identical to static equilibrium h + W_g la_g + W_c la_c, g, c and g_S evaluated independently "
            "(rigid body on a spherical joint; clamped quaternion-rod cantilever, displacement-based and mixed), Newton.jac is the derivative of fun per "
            "basis direction, and the residual of a rigidly moved problem is the rotated residual (rigid body; rod in the thorough tier). With C22's "
            "fsolve contract every converged load step satisfies these rows within the tolerance; truncation / continuation are explored in C21.",
            "4/C23", "symbolic execution of the real static-solver residual / Jacobian code on z3-term jets + z3 nlsat per scalar obligation; float replay",
            "Also Riks.R rows (contact, compliance, constraint) and the bookkeeping of the real Newton.solve / Riks.solve with fsolve replaced by its contract stub returning symbolic vectors (every returned point is the solve's result for its own load level, options forwarded, failing step truncated). That the solvers find an equilibrium is outside; Jacobian per basis direction (three seeded directions per system in the quick tier)."),
    "C24": ("proof", "Model preservation: a copy of an assembled system is re-initialised (System.deepcopy + set_new_initial_state) at a symbolic consistent "
            "state; every model function of the copy (g, g_dot, W_g, joint angle incl. tracked turns, angle rate, spring energy, contact gaps and slip "
            "velocities) is proved equal to the original's at an arbitrary second symbolic state; no exception on any path.", "4/C24",
            "symbolic execution of the real deepcopy / re-assembly code and of the model functions of both systems on z3 terms + z3 per obligation; float replay",
            "Only the model-preservation clause; trajectory equality needs whole simulations (outside; follows for one-step methods, argued in DESIGN)."),
}

NOT_APPLICABLE = {
    "C19": "RATTLE order/drift/reversibility are asymptotic statements about the iterated map over hundreds of Newton-converged "
           "steps; no bounded algebraic assertion over the code implies them (DESIGN section 6).",
    "C28": "system_from_urdf coerces every requested joint coordinate / velocity through float() and reads the robot through urdf_parser_py (XML, file "
           "I/O), then extracts quaternions with Spurrier and runs the full System.assemble with consistent initial conditions: the requested "
           "configuration cannot be made symbolic without a source hook in four places, and even then each link multiplies Spurrier's four branches with "
           "the assertion branches of the initial-condition solve; a concrete enumeration of URDF trees would be testing, not solver-based checking "
           "(DESIGN section 6).",
    "C29": "observable is the content of files written by VTK's C++ writer and read back by its reader; neither file I/O nor "
           "VTK can be executed symbolically (DESIGN section 6).",
}


def main():
    props = [json.loads(l) for l in open(os.path.join(ROOT, "properties.jsonl"))]
    checks = []
    na = []
    for p in props:
        pid = p["id"]
        if pid in CLAIMED:
            cat, text, ref, tech, note = CLAIMED[pid]
            checks.append(dict(
                property_id=pid,
                quick_cmd=f"./check {pid} --tier quick",
                thorough_cmd=f"./check {pid} --tier thorough",
                evidence_file=f"/verif/evidence/{pid}.json",
                replay_cmd_template=f"./check {pid} --replay {{path}}",
                engine="symx",
                level_claimed=dict(category=cat, text=text, design_ref=ref),
                level_note=(note + " " if note else "") + PROOF_NOTE,
                technique=tech,
            ))
        elif pid in NOT_APPLICABLE:
            na.append(dict(property_id=pid, reason=NOT_APPLICABLE[pid]))
        else:
            na.append(dict(property_id=pid, reason="check not built yet in this session (planned in DESIGN section 4); not claimed until it is"))
    man = dict(
        version=1,
        setup_cmd="./setup.sh",
        hooks=dict(
            guard="CARDILLOPROJECT_CARDILLO_VERIF",
            enable="no source hooks: checks import /repo as it is and rebind module globals (np, scipy.sparse, splu, cachetools, warnings) "
                   "inside forked worker processes; the variable is exported by ./check for completeness",
            baseline_off_cmd="cd /repo && /venv/bin/python -m pytest -ra -q -p no:cacheprovider --timeout=900 --continue-on-collection-errors",
            source_commits=[],
            add_only=True,
        ),
        engines=[dict(name="symx", path="/verif/symx", serves_properties=sorted(CLAIMED),
                      kind_free_text="symbolic executor for numpy-based Python: runs the real cardillo functions on z3-term scalars "
                                     "(fraction-free rationals with forward tangents), forks on data-dependent branches, discharges one "
                                     "SMT query per scalar obligation with z3 nlsat, replays every model on the unshimmed float code")],
        checks=checks,
        not_applicable=na,
        notes="See DESIGN.md. Exit codes: 0 held, 1 VIOLATION (replayed on the real float code), 2 HARNESS-ERROR (cannot decide / model did not reproduce).",
    )
    json.dump(man, open(os.path.join(ROOT, "MANIFEST.json"), "w"), indent=1)
    print("claimed", len(checks), "not_applicable", len(na))


if __name__ == "__main__":
    main()
