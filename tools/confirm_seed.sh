#!/bin/sh
# tools/confirm_seed.sh <property> <i>: confirm a seeded change in a scratch worktree:
#  demo passes on the unchanged tree, fails with the change, and the pinned test suite still passes with the change.
P=$1; I=$2
SRC=/tmp/seeded/$P
WT=/tmp/wt/confirm_${P}_$I
OUT=/verif/seeded/$P
mkdir -p $OUT
git -C /repo worktree remove --force $WT 2>/dev/null
git -C /repo worktree add --detach -q $WT HEAD || exit 3
cd $WT
PYTHONPATH=$WT /venv/bin/python $SRC/demo$I.py > /tmp/confirm_${P}_${I}_clean.log 2>&1; rc_clean=$?
git apply $SRC/patch$I.diff || { echo "patch does not apply"; cd /; git -C /repo worktree remove --force $WT; exit 3; }
PYTHONPATH=$WT /venv/bin/python $SRC/demo$I.py > /tmp/confirm_${P}_${I}_mut.log 2>&1; rc_mut=$?
PYTHONPATH=$WT nice -n 10 /venv/bin/python -m pytest -q -p no:cacheprovider --timeout=1800 -x test/ > /tmp/confirm_${P}_${I}_tests.log 2>&1; rc_tests=$?
summary=$(grep -aE "[0-9]+ (passed|failed)" /tmp/confirm_${P}_${I}_tests.log | tail -1)
cd /
git -C /repo worktree remove --force $WT
cp $SRC/patch$I.diff $OUT/patch$I.diff; cp $SRC/demo$I.py $OUT/demo$I.py
python3 - "$P" "$I" "$rc_clean" "$rc_mut" "$rc_tests" "$summary" <<'PY'
import json, sys
P, I, rc_clean, rc_mut, rc_tests, summary = sys.argv[1:7]
src = json.load(open(f"/tmp/seeded/{P}/meta{I}.json"))
src.update(confirmed=dict(demo_exit_unchanged_tree=int(rc_clean), demo_exit_with_change=int(rc_mut), test_suite_exit_with_change=int(rc_tests),
                          test_suite_summary=summary, base_commit=open("/repo/.git/HEAD").read().strip()),
           ran=[f"PYTHONPATH=<worktree> /venv/bin/python demo{I}.py (unchanged tree and with patch{I}.diff applied)",
                "PYTHONPATH=<worktree> /venv/bin/python -m pytest -q -p no:cacheprovider test/ (with the patch applied)"])
json.dump(src, open(f"/verif/seeded/{P}/meta{I}.json", "w"), indent=1)
print(P, I, "demo clean", rc_clean, "demo mutated", rc_mut, "tests", rc_tests, summary)
PY
