#!/bin/sh
# tools/confirm_seed.sh <property> <i>: confirm a seeded change in a scratch worktree:
#  demo passes on the unchanged tree, fails with the change, and the pinned test suite still passes with the change.
# optional: <srcdir> <srci> (where the sub-agent left patch<srci>.diff / demo<srci>.py / meta<srci>.json), stored as index <i>
P=$1; I=$2
SRC=${3:-/tmp/seeded/$P}
SI=${4:-$I}
WT=/tmp/wt/confirm_${P}_$I
OUT=/verif/seeded/$P
mkdir -p $OUT
git -C /repo worktree remove --force $WT 2>/dev/null
git -C /repo worktree add --detach -q $WT HEAD || exit 3
cd $WT
PYTHONPATH=$WT /venv/bin/python $SRC/demo$SI.py > /tmp/confirm_${P}_${I}_clean.log 2>&1; rc_clean=$?
git apply $SRC/patch$SI.diff || { echo "patch does not apply"; cd /; git -C /repo worktree remove --force $WT; exit 3; }
PYTHONPATH=$WT /venv/bin/python $SRC/demo$SI.py > /tmp/confirm_${P}_${I}_mut.log 2>&1; rc_mut=$?
PYTHONPATH=$WT nice -n 10 /venv/bin/python -m pytest -q -p no:cacheprovider --timeout=1800 -x test/ > /tmp/confirm_${P}_${I}_tests.log 2>&1; rc_tests=$?
summary=$(grep -aE "[0-9]+ (passed|failed)" /tmp/confirm_${P}_${I}_tests.log | tail -1)
cd /
git -C /repo worktree remove --force $WT
cp $SRC/patch$SI.diff $OUT/patch$I.diff; cp $SRC/demo$SI.py $OUT/demo$I.py
python3 - "$P" "$I" "$rc_clean" "$rc_mut" "$rc_tests" "$summary" "$SRC" "$SI" <<'PY'
import json, sys
P, I, rc_clean, rc_mut, rc_tests, summary, SRC, SI = sys.argv[1:9]
src = json.load(open(f"{SRC}/meta{SI}.json"))
src["property"] = P
src.update(confirmed=dict(demo_exit_unchanged_tree=int(rc_clean), demo_exit_with_change=int(rc_mut), test_suite_exit_with_change=int(rc_tests),
                          test_suite_summary=summary, base_commit=__import__("subprocess").check_output(["git", "-C", "/repo", "rev-parse", "HEAD"]).decode().strip()),
           ran=[f"PYTHONPATH=<worktree> /venv/bin/python demo{I}.py (unchanged tree and with patch{I}.diff applied)",
                "PYTHONPATH=<worktree> /venv/bin/python -m pytest -q -p no:cacheprovider test/ (with the patch applied)"])
json.dump(src, open(f"/verif/seeded/{P}/meta{I}.json", "w"), indent=1)
print(P, I, "demo clean", rc_clean, "demo mutated", rc_mut, "tests", rc_tests, summary)
PY
