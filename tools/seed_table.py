#!/usr/bin/env python3
"""Generates seeded/RESULTS.md from seeded/*/meta*.json and seeded/detection.json."""
import glob
import json
import os
ROOT = os.path.dirname(os.path.dirname(os.path.abspath(__file__)))
det = json.load(open(os.path.join(ROOT, "seeded", "detection.json")))
rows = []
for f in sorted(glob.glob(os.path.join(ROOT, "seeded", "C*", "meta*.json"))):
    m = json.load(open(f))
    p = m["property"]
    i = os.path.basename(f)[4:-5]
    d = det.get(f"{p}/{i}", {})
    c = m.get("confirmed", {})
    rows.append((p, i, ", ".join(m.get("files", [])), m.get("what_breaks", "")[:160].replace("|", "/").replace("\n", " "),
                 m.get("needs_to_manifest", "")[:140].replace("|", "/").replace("\n", " "),
                 f"demo {c.get('demo_exit_unchanged_tree')}/{c.get('demo_exit_with_change')}, suite exit {c.get('test_suite_exit_with_change')}",
                 d.get("result", "not run yet"), d.get("by", "")))
with open(os.path.join(ROOT, "seeded", "RESULTS.md"), "w") as out:
    out.write("# Seeded changes: confirmation and detection\n\n"
              "`confirmed`: exit code of the demo on the unchanged tree / with the change, and of the pinned test suite with the change "
              "(tools/confirm_seed.sh, scratch worktree).  `detected`: outcome of `tools/seedtest.sh <property> <patch>` (quick tier).\n\n"
              "| property | # | files | what breaks | needs to manifest | confirmed | detected | by (case / clause) |\n|---|---|---|---|---|---|---|---|\n")
    for r in rows:
        out.write("| " + " | ".join(str(x) for x in r) + " |\n")
print(len(rows), "seeds")
