#!/bin/sh
# tools/seedtest.sh <property> <patch file> [extra args for ./check]
# Runs the property's quick check against a scratch worktree of /repo HEAD with the seeded change applied
# (evidence goes to a scratch directory); the worktree is removed afterwards.
P=$1; PATCH=$2; shift 2
TAG=$(basename "$PATCH" .diff)
WT=/tmp/wt/seedtest_${P}_${TAG}
cd /verif
git -C /repo worktree remove --force $WT 2>/dev/null
git -C /repo worktree add --detach -q $WT HEAD || exit 3
git -C $WT apply "$PATCH" || { echo "patch does not apply"; git -C /repo worktree remove --force $WT; exit 3; }
VERIF_REPO=$WT VERIF_EVIDENCE_DIR=/tmp/seed_evidence ./check $P "$@" > /tmp/seedtest_${P}_${TAG}.log 2>&1
rc=$?
git -C /repo worktree remove --force $WT
grep -E "^\[$P\] att|VIOLATION|  case=|HARNESS-ERROR|KNOWN" /tmp/seedtest_${P}_${TAG}.log | cut -c1-220 | head -8
echo "exit=$rc"
